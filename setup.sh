#!/bin/sh
# Offline set-up: nothing is built ahead of time except a syntax/semantic pass over every TLA+ module
# (SANY) and a byte-compile of the harness; checks rebuild everything else from /repo at run time.
set -e
cd "$(dirname "$0")"
mkdir -p evidence replays
for f in spec/*.tla; do
  m=$(basename "$f")
  (cd spec && java -cp /opt/veriftools/tla/tla2tools.jar:/opt/veriftools/tla/CommunityModules-deps.jar tla2sany.SANY "$m" >/tmp/verif-sany.$$ 2>&1) || { cat /tmp/verif-sany.$$; rm -f /tmp/verif-sany.$$; echo "SANY failed on $m"; exit 1; }
  if grep -q "Fatal errors\|\*\*\* Errors" /tmp/verif-sany.$$; then cat /tmp/verif-sany.$$; rm -f /tmp/verif-sany.$$; echo "SANY errors in $m"; exit 1; fi
done
rm -f /tmp/verif-sany.$$
/venv/bin/python -m compileall -q harness check >/dev/null
echo "setup ok"
