----------------------------- MODULE J_Equality -----------------------------
(* Judge for C10: observed ==, != on pairs of real instances, deepcopy / reconstruction equality, repr. *)
EXTENDS PyVal, SequencesExt, TLC, Json, IOUtils, FiniteSets
VARIABLE dummy
Events == ndJsonDeserialize(IOEnv.VERIF_EVENTS)
N == Len(Events)
ET == JsonDeserialize(IOEnv.VERIF_SCN)
Pool == {}
Dev == {}
E == INSTANCE Equality WITH ET <- ET, Pool <- Pool, Dev <- Dev, x <- dummy, y <- dummy, z <- dummy
Failing(e) ==
  CASE e.kind = "pair" ->
         (IF e.eq # E!EqOp(e.x, e.y) THEN {"eq_differs_from_model"} ELSE {})
    \cup (IF e.ne # ~e.eq THEN {"ne_is_not_negation"} ELSE {})
    \cup (IF e.eq # e.eq_rev THEN {"not_symmetric"} ELSE {})
    [] e.kind = "self" ->
         (IF ~e.refl THEN {"not_reflexive"} ELSE {})
    \cup (IF ~e.copy_eq THEN {"deepcopy_not_equal"} ELSE {})
    \cup (IF ~e.rebuilt_eq THEN {"reconstruction_not_equal"} ELSE {})
    \cup (IF e.repr_res # "ok" THEN {"repr_raised"} ELSE {})
    \cup (IF e.repr_res = "ok" /\ e.repr_names # E!ReprAttrs(e.x.c) THEN {"repr_attribute_list"} ELSE {})
    [] e.kind = "triple" -> (IF e.xy /\ e.yz /\ ~e.xz THEN {"not_transitive"} ELSE {})
    [] e.kind = "repr" -> (IF e.repr_res # "ok" THEN {"repr_raised"} ELSE {})
                          \cup (IF e.repr_res = "ok" /\ e.repr_names # E!ReprAttrs(e.c) THEN {"repr_attribute_list"} ELSE {})
F == [i \in 1..N |-> Failing(Events[i])]
BadIdx == {i \in 1..N : F[i] # {}}
Bad == UNION {{[i |-> i, c |-> c, d |-> ""] : c \in F[i]} : i \in BadIdx}
Ante == [pairs |-> Cardinality({i \in 1..N : Events[i].kind = "pair"}), equal_pairs |-> Cardinality({i \in 1..N : Events[i].kind = "pair" /\ Events[i].eq}),
         triples |-> Cardinality({i \in 1..N : Events[i].kind = "triple"}), reprs |-> Cardinality({i \in 1..N : Events[i].kind \in {"self", "repr"}})]
ASSUME JsonSerialize(IOEnv.VERIF_OUT, <<[bad |-> SetToSeq(Bad), n |-> N, ante |-> Ante]>>)
Init == dummy = 0
Next == UNCHANGED dummy
=============================================================================
