---------------------------- MODULE SpecClassOps ----------------------------
(* Executable model of the documented behaviour of spec-class instances (properties C03, C05, C06 and
   the value-level part of C01/C04/C07/C08/C11).

   CT   class table of one scenario:  CT[c] = [attrs : Seq(name), spec : [name -> AttrDef], frozen, dnc : BOOLEAN,
        key : name | "", props : Seq(PropDef)]
        AttrDef = [ty : PyTypes term, dk : "none" | "lit" | "factory", dv : default value (PMissing if none),
                   dnc : BOOLEAN, invby : Seq(name), prep, iprep : callback name | "none", item : singular name | ""]
        PropDef = [name, getter : callback name, cache : BOOLEAN, invby : Seq(name)]
   o    instance  [t |-> "obj", c |-> class, a |-> [attr |-> value (PMissing when unset)], x |-> [prop |-> cached/overridden value]]
   a    action record (see SpecClass.tla!Acts)
   Step(CT, o, a) = [val, res, same]:  val the resulting value (the receiver itself when `same`), res the set of
        acceptable outcome classes ("ok", exception class names, or "unspecified" for call forms the
        documentation does not define).
   Collection values: list / dict / set of PyVal, "klist"/"kset" = KeyedList / KeyedSet of keyed spec instances. *)
EXTENDS PyTypes, SequencesExt

Unchanged   == [t |-> "unchanged"]
IsMissing(v) == v.t = "missing"
IsSentinel(v) == v.t \in {"missing", "unchanged"}
PKL(e)  == [t |-> "klist", e |-> e]
PKS(e)  == [t |-> "kset", e |-> e]

Ok(v)       == [val |-> v, res |-> {"ok"}]
Err(v, e)   == [val |-> v, res |-> e]
IsOk(r)     == r.res = {"ok"}

\* ------------------------------------------------------------------ class table access
ASpec(CT, c, a)  == CT[c].spec[a]
Attrs(CT, c)    == CT[c].attrs
AttrSet(CT, c)  == {CT[c].attrs[j] : j \in 1..Len(CT[c].attrs)}
IsSpecTy(CT, T) == T.k = "user" /\ T.c \in DOMAIN CT
Family(T)       == CASE T.k \in {"list", "klist"} -> "seq" [] T.k = "dict" -> "map" [] T.k \in {"set", "kset"} -> "set" [] OTHER -> "scalar"
ItemTy(T)       == IF T.k = "dict" THEN T.b ELSE T.a
KeyOf(CT, c)    == CT[c].key
EmptyOf(T)      == CASE T.k = "list" -> PLst(<<>>) [] T.k = "dict" -> PDct(<<>>) [] T.k = "set" -> PSet(<<>>) [] T.k = "klist" -> PKL(<<>>) [] T.k = "kset" -> PKS(<<>>)

\* conformance aware of the scenario's spec classes and of the keyed containers
RECURSIVE ConfC(_, _, _)
ConfC(CT, v, T) ==
  CASE T.k = "user"  -> v.t = "obj" /\ (v.c = T.c \/ SubclassOf(v.c, T.c))
    [] T.k = "list"  -> v.t = "list" /\ \A j \in 1..Len(v.e) : ConfC(CT, v.e[j], T.a)
    [] T.k = "set"   -> v.t = "set" /\ \A j \in 1..Len(v.e) : ConfC(CT, v.e[j], T.a)
    [] T.k = "dict"  -> v.t = "dict" /\ \A j \in 1..Len(v.e) : ConfC(CT, v.e[j].k, T.a) /\ ConfC(CT, v.e[j].v, T.b)
    [] T.k = "klist" -> v.t = "klist" /\ \A j \in 1..Len(v.e) : ConfC(CT, v.e[j], T.a)
    [] T.k = "kset"  -> v.t = "kset" /\ \A j \in 1..Len(v.e) : ConfC(CT, v.e[j], T.a)
    [] T.k = "union" -> \E j \in 1..Len(T.as) : ConfC(CT, v, T.as[j])
    [] OTHER -> Conforms(v, T)

\* every managed attribute unset or conforming, recursively through nested spec instances (C03)
RECURSIVE TypeOKVal(_, _)
TypeOKObj(CT, o) == \A a \in AttrSet(CT, o.c) : IsMissing(o.a[a]) \/ (ConfC(CT, o.a[a], ASpec(CT, o.c, a).ty) /\ TypeOKVal(CT, o.a[a]))
TypeOKVal(CT, v) ==
  CASE v.t = "obj" /\ v.c \in DOMAIN CT -> TypeOKObj(CT, v)
    [] v.t \in {"list", "klist", "kset", "tuple"} -> \A j \in 1..Len(v.e) : TypeOKVal(CT, v.e[j])
    [] v.t = "dict" -> \A j \in 1..Len(v.e) : TypeOKVal(CT, v.e[j].v)
    [] OTHER -> TRUE

SetHas(s, x)     == \E j \in 1..Len(s) : PyEq(s[j], x)
SetDrop(s, x)    == SelectSeq(s, LAMBDA y : ~PyEq(y, x))
SetAdd(s, x)     == IF SetHas(s, x) THEN s ELSE Append(s, x)
RECURSIVE DedupFrom(_, _, _)
DedupFrom(xs, i, acc) == IF i > Len(xs) THEN acc ELSE DedupFrom(xs, i + 1, SetAdd(acc, xs[i]))
Dedup(xs) == DedupFrom(xs, 1, <<>>)

SharedChild == [t |-> "obj", c |-> "Child", a |-> [v |-> PInt(1), ws |-> PLst(<<PInt(1)>>)], x |-> [_ |-> PMissing], ov |-> [_ |-> FALSE]]

\* ------------------------------------------------------------------ callbacks (fixed pool, implemented identically in Python)
ApplyFn(f, v) ==
  CASE f \in {"none", "same"} -> Ok(v)
    [] f = "inc"   -> IF IsIntLike(v) THEN Ok(PInt((IntVal(v) + 1) % 3)) ELSE Err(v, {"TypeError"})
    [] f = "pclip" -> IF IsIntLike(v) THEN Ok(PInt(IF IntVal(v) > 1 THEN 1 ELSE IntVal(v))) ELSE Ok(v)   \* total, idempotent preparer
    \* item preparer that rewrites large items and refuses 0 (a later item can fail after earlier ones were rewritten)
    [] f = "pclip0" -> IF IsIntLike(v) THEN (IF IntVal(v) = 0 THEN Err(v, {"ZeroDivisionError"}) ELSE Ok(PInt(IF IntVal(v) > 1 THEN 1 ELSE IntVal(v)))) ELSE Ok(v)
    [] f = "tostr" -> Ok(PStr("s"))
    \* callbacks that hand back a PRE-EXISTING object which is neither their input nor new (a registry entry): the library must not modify it
    [] f = "shared"  -> Ok(SharedChild)
    [] f = "plookup" -> IF v = PStr("s") THEN Ok(SharedChild) ELSE Ok(v)
    [] f = "zero"  -> Ok(PInt(0))
    [] f = "boom"  -> Err(v, {"ZeroDivisionError"})
    [] f = "boom1" -> IF IsIntLike(v) /\ IntVal(v) = 1 THEN Err(v, {"ZeroDivisionError"}) ELSE Ok(v)   \* raises on input 1
    \* a preparer of a nested spec value that refuses children whose v is 1 (raises AFTER the nested value has been worked on)
    [] f = "boomv1" -> IF v.t = "obj" /\ "v" \in DOMAIN v.a /\ v.a.v = PInt(1) THEN Err(v, {"ZeroDivisionError"}) ELSE Ok(v)
    [] f = "up"    -> IF v.t = "str" THEN Ok(PStr(IF v.s = "a" THEN "b" ELSE "a")) ELSE Err(v, {"AttributeError", "TypeError"})
    [] f = "bumpv" -> IF v.t = "obj" /\ "v" \in DOMAIN v.a /\ IsIntLike(v.a.v) THEN Ok([v EXCEPT !.a.v = PInt((IntVal(v.a.v) + 1) % 3)])
                      ELSE Err(v, {"AttributeError", "TypeError"})

\* ------------------------------------------------------------------ keyword lists  <<[k |-> name, v |-> value]>>
KwNames(kw)   == {kw[j].k : j \in 1..Len(kw)}
KwGet(kw, n)  == kw[CHOOSE j \in 1..Len(kw) : kw[j].k = n].v

\* ------------------------------------------------------------------ construction and assignment (mutually recursive)
RECURSIVE Construct(_, _, _), SetAttrVal(_, _, _, _), Prepare(_, _, _, _, _), PrepItem(_, _, _, _), Normalise(_, _, _, _), SetMany(_, _, _, _)

DefaultOf(CT, c, a) == ASpec(CT, c, a).dv
PropNames(CT, c) == {CT[c].props[j].name : j \in 1..Len(CT[c].props)}
BlankX(CT, c) == [q \in PropNames(CT, c) \cup {"_"} |-> PMissing]      \* property cache/override slots ("_" keeps the record non-empty)
BlankOv(CT, c) == [q \in PropNames(CT, c) \cup {"_"} |-> FALSE]        \* ghost: which slots hold a user override (not observable in the instance dict)

\* Cls(**kw): unknown keyword -> TypeError; every attribute, in declaration order, is assigned its keyword value or else its
\* default (defaults go through the preparer and the type check like any assignment)
\* init_overflow_attr: keywords outside the attributes are accepted and collected, in call order, into that Dict[str, Any] attribute
\* (naming the overflow attribute itself among the keywords is left open)
OverflowOf(CT, c) == IF "overflow" \in DOMAIN CT[c] THEN CT[c].overflow ELSE ""
ExtraKw(CT, c, kw) == SelectSeq(kw, LAMBDA e : e.k \notin AttrSet(CT, c))
Construct(CT, c, kw) ==
  IF OverflowOf(CT, c) = "" /\ ~(KwNames(kw) \subseteq AttrSet(CT, c)) THEN Err(PMissing, {"TypeError"})
  ELSE IF OverflowOf(CT, c) # "" /\ (OverflowOf(CT, c) \in KwNames(kw) \/ \E j \in 1..Len(kw) : IsSentinel(kw[j].v)) THEN Err(PMissing, {"unspecified"})
  ELSE IF KeyOf(CT, c) # "" /\ KeyOf(CT, c) \notin KwNames(kw) /\ IsMissing(DefaultOf(CT, c, KeyOf(CT, c))) THEN Err(PMissing, {"TypeError"})
  ELSE LET blank == [t |-> "obj", c |-> c, a |-> [n \in AttrSet(CT, c) |-> PMissing], x |-> BlankX(CT, c), ov |-> BlankOv(CT, c)]
           all == [j \in 1..Len(Attrs(CT, c)) |-> [k |-> Attrs(CT, c)[j],
                                                   v |-> IF Attrs(CT, c)[j] = OverflowOf(CT, c)
                                                         THEN [t |-> "dict", e |-> [m \in 1..Len(ExtraKw(CT, c, kw)) |-> [k |-> PStr(ExtraKw(CT, c, kw)[m].k), v |-> ExtraKw(CT, c, kw)[m].v]]]
                                                         ELSE IF Attrs(CT, c)[j] \in KwNames(kw) /\ ~IsMissing(KwGet(kw, Attrs(CT, c)[j]))
                                                         THEN KwGet(kw, Attrs(CT, c)[j]) ELSE DefaultOf(CT, c, Attrs(CT, c)[j])]]
       IN SetMany(CT, blank, all, 1)

\* fold of assignments; stops at the first failure
SetMany(CT, o, kw, i) ==
  IF i > Len(kw) THEN Ok(o)
  ELSE LET r == SetAttrVal(CT, o, kw[i].k, kw[i].v) IN IF IsOk(r) THEN SetMany(CT, r.val, kw, i + 1) ELSE Err(o, r.res)

\* item preparation inside a collection attribute: item preparer, then key -> keyed spec instance promotion
PrepItem(CT, c, a, x) ==
  LET sp == ASpec(CT, c, a) T == ItemTy(sp.ty)
      p  == IF sp.iprep # "none" /\ ~IsMissing(x) THEN ApplyFn(sp.iprep, x) ELSE Ok(x)
  IN IF ~IsOk(p) THEN p
     ELSE IF IsSpecTy(CT, T) /\ KeyOf(CT, T.c) # "" /\ ~IsMissing(p.val) /\ ~ConfC(CT, p.val, T)
             /\ ConfC(CT, p.val, ASpec(CT, T.c, KeyOf(CT, T.c)).ty)
          THEN Construct(CT, T.c, <<[k |-> KeyOf(CT, T.c), v |-> p.val]>>)
     ELSE p

\* element list of any iterable value (None / missing count as empty)
Elems(v) == CASE v.t \in {"list", "tuple", "klist", "kset", "set"} -> v.e [] OTHER -> <<>>
IsIterable(v) == v.t \in {"list", "tuple", "set", "klist", "kset", "dict", "str"}

KeyVal(CT, x) == x.a[KeyOf(CT, x.c)]
HasKeyDup(CT, xs) == \E i, j \in 1..Len(xs) : i # j /\ xs[i].t = "obj" /\ xs[j].t = "obj" /\ KeyVal(CT, xs[i]) = KeyVal(CT, xs[j])

\* whole-collection assignment: rebuild item by item unless already conforming and no item preparer (A3)
RECURSIVE PrepSeq(_, _, _, _, _)
PrepSeq(CT, c, a, xs, i) ==          \* prepared + type-checked items, or the first failure
  IF i > Len(xs) THEN Ok(<<>>)
  ELSE LET p == PrepItem(CT, c, a, xs[i]) IN
       IF ~IsOk(p) THEN p
       ELSE IF ~ConfC(CT, p.val, ItemTy(ASpec(CT, c, a).ty)) THEN Err(PMissing, {"ValueError"})
       ELSE LET rest == PrepSeq(CT, c, a, xs, i + 1) IN IF IsOk(rest) THEN Ok(<<p.val>> \o rest.val) ELSE rest

Normalise(CT, c, a, v) ==
  LET sp == ASpec(CT, c, a) T == sp.ty fam == Family(T) IN
  IF v.t \in {"none", "missing"} THEN Ok(EmptyOf(T))
  ELSE IF ConfC(CT, v, T) /\ sp.iprep = "none" /\ ~(IsSpecTy(CT, ItemTy(T)) /\ FALSE) THEN Ok(v)
  ELSE IF fam = "map" THEN
         IF v.t # "dict" THEN Err(PMissing, {"TypeError"})
         ELSE LET vals == PrepSeq(CT, c, a, [j \in 1..Len(v.e) |-> v.e[j].v], 1) IN
              IF ~IsOk(vals) THEN vals
              ELSE LET d == PDct([j \in 1..Len(v.e) |-> [k |-> v.e[j].k, v |-> vals.val[j]]]) IN
                   IF ConfC(CT, d, T) THEN Ok(d) ELSE Err(PMissing, {"TypeError", "ValueError"})      \* ill-typed key
  ELSE IF ~IsIterable(v) THEN Err(PMissing, {"TypeError"})
  ELSE IF v.t \in {"str", "dict"} THEN Err(PMissing, {"unspecified"})
  ELSE LET items == PrepSeq(CT, c, a, Elems(v), 1) IN
       IF ~IsOk(items) THEN items
       ELSE CASE T.k = "list"  -> Ok(PLst(items.val))
              [] T.k = "set"   -> Ok(PSet(Dedup(items.val)))
              [] T.k = "klist" -> IF HasKeyDup(CT, items.val) THEN Err(PMissing, {"ValueError"}) ELSE Ok(PKL(items.val))
              [] T.k = "kset"  -> Err(PMissing, {"unspecified"})

\* prepare_attr_value: preparer, dict-as-constructor-keywords, construct-from-keywords, keywords set on the value, normalisation
Prepare(CT, c, a, v, kw) ==
  LET sp == ASpec(CT, c, a) T == sp.ty
      p  == IF sp.prep # "none" /\ ~IsMissing(v) THEN ApplyFn(sp.prep, v) ELSE Ok(v)
  IN IF ~IsOk(p) THEN p
     ELSE LET w == p.val
              built ==
                IF IsSpecTy(CT, T) /\ w.t = "dict" THEN
                     \* the dict's entries are constructor keywords; combined with same-named call keywords the
                     \* documentation does not say which wins
                     (IF \E q \in KwNames(kw) : \E m \in 1..Len(w.e) : w.e[m].k = PStr(q) THEN Err(PMissing, {"unspecified"})
                      ELSE Construct(CT, T.c, kw \o [j \in 1..Len(w.e) |-> [k |-> w.e[j].k.s, v |-> w.e[j].v]]))
                ELSE IF IsMissing(w) THEN
                     (IF IsSpecTy(CT, T) THEN Construct(CT, T.c, kw)
                      ELSE IF Family(T) # "scalar" THEN Ok(EmptyOf(T))
                      ELSE Err(PMissing, {"unspecified"}))
                ELSE IF kw # <<>> THEN
                     (IF w.t = "obj" /\ w.c \in DOMAIN CT THEN SetMany(CT, w, kw, 1) ELSE Err(PMissing, {"unspecified"}))
                ELSE Ok(w)
          IN IF ~IsOk(built) THEN built
             ELSE IF Family(T) # "scalar" THEN Normalise(CT, c, a, built.val)
             ELSE built

\* obj.a = v  (also the assignment each keyword of a nested update performs)
SetAttrVal(CT, o, a, v) ==
  IF a \notin AttrSet(CT, o.c) THEN Err(o, {"unspecified"})
  ELSE IF IsSentinel(v) THEN Ok(o)
  ELSE LET p == Prepare(CT, o.c, a, v, <<>>) IN
       IF ~IsOk(p) THEN Err(o, p.res)
       ELSE IF ~ConfC(CT, p.val, ASpec(CT, o.c, a).ty) THEN Err(o, {"TypeError"})
       ELSE Ok([o EXCEPT !.a[a] = p.val])

\* ------------------------------------------------------------------ invalidation (C11) -- transitive closure of `invalidated_by`
Dependants(CT, c, a) ==
  {n \in AttrSet(CT, c) : \E j \in 1..Len(ASpec(CT, c, n).invby) : ASpec(CT, c, n).invby[j] \in {a, "*"}}
  \cup {CT[c].props[j].name : j \in {k \in 1..Len(CT[c].props) : \E m \in 1..Len(CT[c].props[k].invby) : CT[c].props[k].invby[m] \in {a, "*"}}}
PropDef(CT, c, p) == CT[c].props[CHOOSE j \in 1..Len(CT[c].props) : CT[c].props[j].name = p]
\* reset one dependant: a managed attribute goes back to its default, a property loses its cache/override entry
ResetOne(CT, o, n) ==
  IF n \in AttrSet(CT, o.c) THEN [o EXCEPT !.a[n] = DefaultOf(CT, o.c, n)]
  ELSE [o EXCEPT !.x[n] = PMissing, !.ov[n] = FALSE]
InvDev == {}            \* named deviations of the invalidation rule that are switched on (none: the intended design)
RECURSIVE InvalidateSet(_, _, _, _)
InvalidateSet(CT, o, todo, done) ==
  IF todo = {} THEN o
  ELSE LET n == CHOOSE m \in todo : TRUE
           changed == (n \in AttrSet(CT, o.c)) \/ ~IsMissing(o.x[n])
           o2 == ResetOne(CT, o, n)
           \* invalidation always propagates to the dependants of a dependant, whether or not that dependant currently
           \* holds a stored value (a non-caching property in the middle of a chain still "changes");
           \* Dev "inv_stops_at_empty" = the pre-fix rule (propagate only when an entry was actually deleted)
           more == IF changed \/ "inv_stops_at_empty" \notin InvDev THEN Dependants(CT, o.c, n) \ (done \cup {n}) ELSE {}
       IN InvalidateSet(CT, o2, (todo \ {n}) \cup more, done \cup {n})
Invalidate(CT, o, a) == InvalidateSet(CT, o, Dependants(CT, o.c, a) \ {a}, {a})

\* commit a prepared value to attribute a (type check, write, invalidate)
Commit(CT, o, a, v) ==
  IF IsSentinel(v) THEN Ok(o)
  ELSE IF ~ConfC(CT, v, ASpec(CT, o.c, a).ty) THEN Err(o, {"TypeError"})
  ELSE Ok(Invalidate(CT, [o EXCEPT !.a[a] = v], a))

\* ------------------------------------------------------------------ scalar helpers
With(CT, o, a, v, kw) ==
  IF v = Unchanged THEN Ok(o)
  ELSE LET p == Prepare(CT, o.c, a, v, kw) IN IF ~IsOk(p) THEN Err(o, p.res) ELSE Commit(CT, o, a, p.val)

\* update_<a>: replace when a value is given, otherwise merge the keywords into the existing nested value
UpdateA(CT, o, a, v, kw) ==
  LET T == ASpec(CT, o.c, a).ty old == o.a[a] IN
  IF v = Unchanged THEN Ok(o)
  \* (a replacement value that still needs the preparer, combined with keywords: the order of the two is not documented)
  ELSE IF ~IsMissing(v) /\ kw # <<>> /\ ASpec(CT, o.c, a).prep # "none" THEN Err(o, {"unspecified"})
  \* (likewise a dict standing for constructor keywords: update_ builds the value first and prepares it then, with_ the other way round)
  ELSE IF v.t = "dict" /\ IsSpecTy(CT, T) /\ ASpec(CT, o.c, a).prep # "none" THEN Err(o, {"unspecified"})
  ELSE IF ~IsMissing(v) THEN With(CT, o, a, v, kw)
  ELSE IF ~IsSpecTy(CT, T) THEN (IF kw = <<>> /\ ~IsMissing(old) THEN With(CT, o, a, old, <<>>) ELSE Err(o, {"unspecified"}))
  \* nothing to merge into: the nested value is built from the keywords and then assigned like any value (preparer included)
  ELSE IF IsMissing(old) THEN (IF ASpec(CT, o.c, a).prep = "none" THEN With(CT, o, a, PMissing, kw)
                               ELSE LET b == Construct(CT, T.c, kw) IN IF ~IsOk(b) THEN Err(o, b.res) ELSE With(CT, o, a, b.val, <<>>))
  ELSE LET m == SetMany(CT, old, kw, 1) IN IF ~IsOk(m) THEN Err(o, m.res) ELSE With(CT, o, a, m.val, <<>>)

RECURSIVE TransformMany(_, _, _, _)
TransformMany(CT, w, kwf, i) ==           \* attribute transforms on a nested spec value
  IF i > Len(kwf) THEN Ok(w)
  ELSE LET cur == w.a[kwf[i].k] f == ApplyFn(kwf[i].v, cur) IN
       IF ~IsOk(f) THEN Err(w, f.res)
       ELSE LET r == SetAttrVal(CT, w, kwf[i].k, f.val) IN IF IsOk(r) THEN TransformMany(CT, r.val, kwf, i + 1) ELSE Err(w, r.res)

TransformA(CT, o, a, f, kwf) ==
  LET T == ASpec(CT, o.c, a).ty old == o.a[a] IN
  \* nothing there yet: with attribute transforms alone the nested value is built with its defaults and the transforms applied to that
  \* (a function of the missing value itself, or a preparer in between, is left open)
  IF IsMissing(old) THEN
       (IF IsSpecTy(CT, T) /\ f = "none" /\ kwf # <<>> /\ ASpec(CT, o.c, a).prep = "none" /\ KwNames(kwf) \subseteq AttrSet(CT, T.c)
        THEN LET b == Construct(CT, T.c, <<>>) IN
             IF ~IsOk(b) THEN Err(o, b.res)
             ELSE LET r2 == TransformMany(CT, b.val, kwf, 1) IN IF ~IsOk(r2) THEN Err(o, r2.res) ELSE With(CT, o, a, r2.val, <<>>)
        ELSE Err(o, {"unspecified"}))
  ELSE IF kwf # <<>> /\ ~(IsSpecTy(CT, T) /\ KwNames(kwf) \subseteq AttrSet(CT, T.c)) THEN Err(o, {"TypeError"})
  ELSE LET r1 == ApplyFn(f, old) IN
       IF ~IsOk(r1) THEN Err(o, r1.res)
       ELSE LET r2 == IF kwf = <<>> THEN r1 ELSE IF r1.val.t = "obj" THEN TransformMany(CT, r1.val, kwf, 1) ELSE Err(o, {"unspecified"}) IN
            IF ~IsOk(r2) THEN Err(o, r2.res) ELSE With(CT, o, a, r2.val, <<>>)

\* reset_<a> / del o.a : back to the default (a fresh copy), missing when there is none
\* (the default is stored as declared, without the preparer; like any value it must conform to the attribute's type)
ResetA(CT, o, a) ==
  IF IsMissing(o.a[a]) /\ IsMissing(DefaultOf(CT, o.c, a)) THEN Ok(o)      \* already missing, nothing to restore: stays missing
  ELSE IF ~IsMissing(DefaultOf(CT, o.c, a)) /\ ~ConfC(CT, DefaultOf(CT, o.c, a), ASpec(CT, o.c, a).ty) THEN Err(o, {"TypeError"})
  ELSE Ok(Invalidate(CT, [o EXCEPT !.a[a] = DefaultOf(CT, o.c, a)], a))

RECURSIVE ResetAll(_, _, _)
ResetAll(CT, o, i) == IF i > Len(Attrs(CT, o.c)) THEN o
                      ELSE LET a == Attrs(CT, o.c)[i] IN
                           ResetAll(CT, IF IsMissing(o.a[a]) /\ IsMissing(DefaultOf(CT, o.c, a)) THEN o
                                        ELSE Invalidate(CT, [o EXCEPT !.a[a] = DefaultOf(CT, o.c, a)], a), i + 1)

\* ------------------------------------------------------------------ element helpers: the plain container operation (C06)
Norm(n, i)    == IF i < 0 THEN i + n ELSE i
InRange(n, i) == Norm(n, i) >= 0 /\ Norm(n, i) < n
Clamp(n, i)   == LET j == Norm(n, i) IN IF j < 0 THEN 0 ELSE IF j > n THEN n ELSE j
InsAt(l, pos, x) == SubSeq(l, 1, pos) \o <<x>> \o SubSeq(l, pos + 1, Len(l))
RemAt(l, pos)    == SubSeq(l, 1, pos) \o SubSeq(l, pos + 2, Len(l))
FirstIdx(l, x)   == (CHOOSE j \in 1..Len(l) : PyEq(l[j], x) /\ \A m \in 1..(j - 1) : ~PyEq(l[m], x)) - 1
OccursIn(l, x)   == \E j \in 1..Len(l) : PyEq(l[j], x)
DictHas(d, k)    == \E j \in 1..Len(d) : PyEq(d[j].k, k)
DictPos(d, k)    == CHOOSE j \in 1..Len(d) : PyEq(d[j].k, k)
DictPut(d, k, v) == IF DictHas(d, k) THEN [d EXCEPT ![DictPos(d, k)] = [k |-> d[DictPos(d, k)].k, v |-> v]] ELSE Append(d, [k |-> k, v |-> v])
DictDel(d, k)    == SelectSeq(d, LAMBDA e : ~PyEq(e.k, k))
KeyPos(CT, l, k) == CHOOSE j \in 1..Len(l) : PyEq(KeyVal(CT, l[j]), k)
HasKey(CT, l, k) == \E j \in 1..Len(l) : PyEq(KeyVal(CT, l[j]), k)

\* element value for with_/update_<item>: given item (prepared, promoted) or built/updated from keywords
ItemValue(CT, c, a, old, item, kw, replace) ==
  LET T == ItemTy(ASpec(CT, c, a).ty) IN
  IF ~IsMissing(item) THEN
       LET p == PrepItem(CT, c, a, item) IN
       IF ~IsOk(p) THEN p
       ELSE IF kw = <<>> THEN p
       ELSE IF p.val.t = "obj" /\ p.val.c \in DOMAIN CT THEN SetMany(CT, p.val, kw, 1) ELSE Err(PMissing, {"unspecified"})
  ELSE IF ~replace /\ ~IsMissing(old) THEN                      \* update: merge keywords into the existing element
       (IF kw = <<>> THEN Ok(old) ELSE IF old.t = "obj" /\ old.c \in DOMAIN CT THEN SetMany(CT, old, kw, 1) ELSE Err(PMissing, {"unspecified"}))
  ELSE IF IsSpecTy(CT, T) THEN Construct(CT, T.c, kw)
  ELSE Err(PMissing, {"unspecified"})

CheckItem(CT, c, a, r) == IF ~IsOk(r) THEN r ELSE IF ~ConfC(CT, r.val, ItemTy(ASpec(CT, c, a).ty)) THEN Err(PMissing, {"ValueError"}) ELSE r

\* by-index defaulting rule: index unless the argument has the element type
ByIndex(CT, c, a, voi, byidx) ==
  IF byidx = "true" THEN TRUE ELSE IF byidx = "false" THEN FALSE ELSE ~ConfC(CT, voi, ItemTy(ASpec(CT, c, a).ty))

\* locate the addressed element of a sequence: [found, pos (0-based), res]
SeqLocate(CT, c, a, coll, voi, byidx) ==
  LET l == coll.e n == Len(l) IN
  IF ByIndex(CT, c, a, voi, byidx) THEN
       IF coll.t = "klist" /\ voi.t = "str" THEN                         \* KeyedList: a non-int index is a key
            (IF HasKey(CT, l, voi) THEN [found |-> TRUE, pos |-> KeyPos(CT, l, voi) - 1, res |-> {"ok"}] ELSE [found |-> FALSE, pos |-> 0, res |-> {"KeyError", "IndexError"}])
       ELSE IF ~IsIntLike(voi) THEN [found |-> FALSE, pos |-> 0, res |-> {"TypeError", "IndexError", "KeyError", "ValueError"}]
       ELSE IF InRange(n, IntVal(voi)) THEN [found |-> TRUE, pos |-> Norm(n, IntVal(voi)), res |-> {"ok"}]
       ELSE [found |-> FALSE, pos |-> 0, res |-> {"IndexError"}]
  ELSE IF OccursIn(l, voi) THEN [found |-> TRUE, pos |-> FirstIdx(l, voi), res |-> {"ok"}]
  ELSE [found |-> FALSE, pos |-> 0, res |-> {"ValueError"}]

KLCheck(CT, coll, l2) == IF coll.t = "klist" /\ HasKeyDup(CT, l2) THEN Err(PMissing, {"ValueError"}) ELSE Ok([coll EXCEPT !.e = l2])

\* the four element helpers on the collection value `coll0` (missing -> created empty); result: new collection value
ElemOp(CT, c, a, coll0, act) ==
  LET sp == ASpec(CT, c, a) T == sp.ty fam == Family(T)
      coll == IF IsMissing(coll0) THEN EmptyOf(T) ELSE coll0
  IN
  IF fam = "seq" THEN
     LET l == coll.e n == Len(l) IN
     CASE act.op = "with_item" ->
            IF IsMissing(act.index) THEN
                 LET it == CheckItem(CT, c, a, ItemValue(CT, c, a, PMissing, act.item, act.kw, TRUE)) IN
                 IF ~IsOk(it) THEN it ELSE KLCheck(CT, coll, Append(l, it.val))
            ELSE IF ~IsIntLike(act.index) THEN
                 (IF coll.t = "klist" /\ act.index.t = "str" /\ ~act.insert THEN
                       IF ~HasKey(CT, l, act.index) THEN Err(PMissing, {"KeyError", "IndexError"})
                       ELSE LET pos == KeyPos(CT, l, act.index) - 1
                                it == CheckItem(CT, c, a, ItemValue(CT, c, a, l[pos + 1], act.item, act.kw, TRUE)) IN
                            IF ~IsOk(it) THEN it ELSE KLCheck(CT, coll, [l EXCEPT ![pos + 1] = it.val])
                  ELSE Err(PMissing, {"unspecified"}))
            ELSE IF act.insert THEN
                 LET it == CheckItem(CT, c, a, ItemValue(CT, c, a, PMissing, act.item, act.kw, TRUE)) IN
                 IF ~IsOk(it) THEN it ELSE KLCheck(CT, coll, InsAt(l, Clamp(n, IntVal(act.index)), it.val))
            ELSE IF ~InRange(n, IntVal(act.index)) THEN Err(PMissing, {"IndexError"})
            ELSE LET pos == Norm(n, IntVal(act.index))
                     it == CheckItem(CT, c, a, ItemValue(CT, c, a, l[pos + 1], act.item, act.kw, TRUE)) IN
                 IF ~IsOk(it) THEN it ELSE KLCheck(CT, coll, [l EXCEPT ![pos + 1] = it.val])
       [] act.op = "update_item" ->
            LET loc == SeqLocate(CT, c, a, coll, act.voi, act.byidx) IN
            IF ~loc.found THEN Err(PMissing, loc.res)
            ELSE LET it == CheckItem(CT, c, a, ItemValue(CT, c, a, l[loc.pos + 1], act.item, act.kw, FALSE)) IN
                 IF ~IsOk(it) THEN it ELSE KLCheck(CT, coll, [l EXCEPT ![loc.pos + 1] = it.val])
       [] act.op = "transform_item" ->
            LET loc == SeqLocate(CT, c, a, coll, act.voi, act.byidx) IN
            IF ~loc.found THEN Err(PMissing, loc.res)
            ELSE LET f == ApplyFn(act.f, l[loc.pos + 1])
                     g == IF ~IsOk(f) THEN f ELSE IF act.kwf = <<>> THEN f ELSE IF f.val.t = "obj" THEN TransformMany(CT, f.val, act.kwf, 1) ELSE Err(PMissing, {"unspecified"})
                     it == CheckItem(CT, c, a, g) IN
                 IF ~IsOk(it) THEN it ELSE KLCheck(CT, coll, [l EXCEPT ![loc.pos + 1] = it.val])
       [] act.op = "without_item" ->
            IF IsMissing(coll0) THEN Err(coll0, {"ok", "IndexError", "ValueError", "KeyError"} \cup (IF act.voi.t = "int" THEN {} ELSE {"TypeError"}))     \* nothing to remove from (A7): no-op or a lookup error
            ELSE LET loc == SeqLocate(CT, c, a, coll, act.voi, act.byidx) IN
                 IF ~loc.found THEN Err(PMissing, loc.res) ELSE Ok([coll EXCEPT !.e = RemAt(l, loc.pos)])
  ELSE IF fam = "map" THEN
     LET d == coll.e IN
     CASE act.op = "with_item" ->
            LET old == IF DictHas(d, act.key) THEN d[DictPos(d, act.key)].v ELSE PMissing
                it == CheckItem(CT, c, a, ItemValue(CT, c, a, old, act.item, act.kw, TRUE)) IN
            IF ~IsOk(it) THEN it
            ELSE IF ~ConfC(CT, act.key, T.a) THEN Err(PMissing, {"TypeError", "ValueError"})          \* the key is type checked too (C03)
            ELSE Ok([coll EXCEPT !.e = DictPut(d, act.key, it.val)])
       [] act.op = "update_item" ->
            IF ~DictHas(d, act.key) THEN Err(PMissing, {"KeyError"})
            ELSE LET it == CheckItem(CT, c, a, ItemValue(CT, c, a, d[DictPos(d, act.key)].v, act.item, act.kw, FALSE)) IN
                 IF ~IsOk(it) THEN it ELSE Ok([coll EXCEPT !.e = DictPut(d, act.key, it.val)])
       [] act.op = "transform_item" ->
            IF ~DictHas(d, act.key) THEN Err(PMissing, {"KeyError"})
            ELSE LET f == ApplyFn(act.f, d[DictPos(d, act.key)].v)
                     g == IF ~IsOk(f) THEN f ELSE IF act.kwf = <<>> THEN f ELSE IF f.val.t = "obj" THEN TransformMany(CT, f.val, act.kwf, 1) ELSE Err(PMissing, {"unspecified"})
                     it == CheckItem(CT, c, a, g) IN
                 IF ~IsOk(it) THEN it ELSE Ok([coll EXCEPT !.e = DictPut(d, act.key, it.val)])
       [] act.op = "without_item" ->
            IF IsMissing(coll0) THEN Err(coll0, {"ok", "KeyError"})
            ELSE IF ~DictHas(d, act.key) THEN Err(PMissing, {"KeyError"}) ELSE Ok([coll EXCEPT !.e = DictDel(d, act.key)])
  ELSE IF T.k = "kset" THEN
     \* KeyedSet attribute: a set of keyed items addressed by key or by item (by its key); storing an item replaces the one holding its key
     LET s == coll.e
         keyOf(v) == IF v.t = "obj" /\ v.c \in DOMAIN CT /\ KeyOf(CT, v.c) # "" THEN KeyVal(CT, v) ELSE v
         has(k)   == \E j \in 1..Len(s) : PyEq(KeyVal(CT, s[j]), k)
         at(k)    == s[CHOOSE j \in 1..Len(s) : PyEq(KeyVal(CT, s[j]), k)]
         drop(k)  == SelectSeq(s, LAMBDA y : ~PyEq(KeyVal(CT, y), k))
         put(xs, x) == IF \E j \in 1..Len(xs) : PyEq(KeyVal(CT, xs[j]), KeyVal(CT, x))
                       THEN [j \in 1..Len(xs) |-> IF PyEq(KeyVal(CT, xs[j]), KeyVal(CT, x)) THEN x ELSE xs[j]] ELSE Append(xs, x)
         hashable(v) == v.t \notin {"list", "dict", "set", "klist", "kset"}
     IN
     CASE act.op = "with_item" ->
            LET it == CheckItem(CT, c, a, ItemValue(CT, c, a, PMissing, act.item, act.kw, TRUE)) IN
            IF ~IsOk(it) THEN it ELSE Ok([coll EXCEPT !.e = put(s, it.val)])
       [] act.op = "update_item" ->
            IF ~hashable(act.voi) \/ ~has(keyOf(act.voi)) THEN Err(PMissing, {"ValueError", "KeyError", "TypeError"})
            ELSE LET it == CheckItem(CT, c, a, ItemValue(CT, c, a, at(keyOf(act.voi)), act.item, act.kw, FALSE)) IN
                 IF ~IsOk(it) THEN it ELSE Ok([coll EXCEPT !.e = put(drop(keyOf(act.voi)), it.val)])
       [] act.op = "transform_item" ->
            IF ~hashable(act.voi) \/ ~has(keyOf(act.voi)) THEN Err(PMissing, {"ValueError", "KeyError", "TypeError"})
            ELSE LET f == ApplyFn(act.f, at(keyOf(act.voi)))
                     g == IF ~IsOk(f) THEN f ELSE IF act.kwf = <<>> THEN f ELSE IF f.val.t = "obj" THEN TransformMany(CT, f.val, act.kwf, 1) ELSE Err(PMissing, {"unspecified"})
                     it == CheckItem(CT, c, a, g) IN
                 IF ~IsOk(it) THEN it ELSE Ok([coll EXCEPT !.e = put(drop(keyOf(act.voi)), it.val)])
       [] act.op = "without_item" ->
            IF IsMissing(coll0) THEN Err(coll0, {"ok", "ValueError", "KeyError"})
            ELSE IF ~hashable(act.voi) \/ ~has(keyOf(act.voi)) THEN Err(PMissing, {"ValueError", "KeyError", "TypeError"})
            ELSE Ok([coll EXCEPT !.e = drop(keyOf(act.voi))])
  ELSE  \* plain set
     LET s == coll.e IN
     CASE act.op = "with_item" ->
            LET it == CheckItem(CT, c, a, ItemValue(CT, c, a, PMissing, act.item, act.kw, TRUE)) IN
            IF ~IsOk(it) THEN it ELSE Ok([coll EXCEPT !.e = SetAdd(s, it.val)])
       [] act.op = "update_item" ->
            IF ~SetHas(s, act.voi) THEN Err(PMissing, {"ValueError", "KeyError"})
            ELSE LET it == CheckItem(CT, c, a, ItemValue(CT, c, a, act.voi, act.item, act.kw, FALSE)) IN
                 IF ~IsOk(it) THEN it ELSE Ok([coll EXCEPT !.e = SetAdd(SetDrop(s, act.voi), it.val)])
       [] act.op = "transform_item" ->
            IF ~SetHas(s, act.voi) THEN Err(PMissing, {"ValueError", "KeyError"})
            ELSE LET it == CheckItem(CT, c, a, ApplyFn(act.f, act.voi)) IN
                 IF ~IsOk(it) THEN it ELSE Ok([coll EXCEPT !.e = SetAdd(SetDrop(s, act.voi), it.val)])
       [] act.op = "without_item" ->
            IF IsMissing(coll0) THEN Err(coll0, {"ok", "ValueError", "KeyError"})
            ELSE IF ~SetHas(s, act.voi) THEN Err(PMissing, {"ValueError", "KeyError"}) ELSE Ok([coll EXCEPT !.e = SetDrop(s, act.voi)])

ElemHelper(CT, o, act) ==
  LET r == ElemOp(CT, o.c, act.attr, o.a[act.attr], act) IN
  IF ~IsOk(r) THEN Err(o, r.res)
  ELSE IF r.val = o.a[act.attr] /\ IsMissing(r.val) THEN Ok(o)
  ELSE Ok(Invalidate(CT, [o EXCEPT !.a[act.attr] = r.val], act.attr))

\* ------------------------------------------------------------------ top-level helpers
UpdateTop(CT, o, kw) ==
  IF ~(KwNames(kw) \subseteq AttrSet(CT, o.c)) THEN Err(o, {"TypeError"})
  ELSE LET RECURSIVE Go(_, _)
           Go(cur, i) == IF i > Len(kw) THEN Ok(cur)
                         ELSE LET p == Prepare(CT, cur.c, kw[i].k, kw[i].v, <<>>) IN
                              IF IsSentinel(kw[i].v) THEN Go(cur, i + 1)
                              ELSE IF ~IsOk(p) THEN Err(o, p.res)
                              ELSE LET cm == Commit(CT, cur, kw[i].k, p.val) IN IF IsOk(cm) THEN Go(cm.val, i + 1) ELSE Err(o, cm.res)
       IN Go(o, 1)
TransformTop(CT, o, kwf) ==
  IF ~(KwNames(kwf) \subseteq AttrSet(CT, o.c)) THEN Err(o, {"TypeError"})
  ELSE LET RECURSIVE Go(_, _)
           Go(cur, i) == IF i > Len(kwf) THEN Ok(cur)
                         ELSE IF IsMissing(cur.a[kwf[i].k]) THEN Err(o, {"unspecified"})
                         ELSE LET f == ApplyFn(kwf[i].v, cur.a[kwf[i].k]) IN
                              IF ~IsOk(f) THEN Err(o, f.res)
                              ELSE LET p == Prepare(CT, cur.c, kwf[i].k, f.val, <<>>) IN
                                   IF ~IsOk(p) THEN Err(o, p.res)
                                   ELSE LET cm == Commit(CT, cur, kwf[i].k, p.val) IN IF IsOk(cm) THEN Go(cm.val, i + 1) ELSE Err(o, cm.res)
       IN Go(o, 1)

\* ------------------------------------------------------------------ derived values: spec_property reads, overrides, deletions (C11)
RECURSIVE ReadProp(_, _, _), EvalGetter(_, _, _)
RP(o, v, res) == [o |-> o, v |-> v, res |-> res]
\* getters of the pool; each reads exactly what the scenario declares as its dependencies
EvalGetter(CT, o, g) ==
  CASE g = "a_plus_10" -> IF IsIntLike(o.a.a) THEN RP(o, PInt(IntVal(o.a.a) + 10), {"ok"}) ELSE RP(o, PMissing, {"AttributeError", "TypeError"})
    [] g = "a_plus_b"  -> IF IsIntLike(o.a.a) /\ IsIntLike(o.a.b) THEN RP(o, PInt(IntVal(o.a.a) + IntVal(o.a.b)), {"ok"}) ELSE RP(o, PMissing, {"AttributeError", "TypeError"})
    [] g = "c_plus_1"  -> IF IsIntLike(o.a.c) THEN RP(o, PInt(IntVal(o.a.c) + 1), {"ok"}) ELSE RP(o, PMissing, {"AttributeError", "TypeError"})
    [] g = "len_xs"    -> IF o.a.xs.t = "list" THEN RP(o, PInt(Len(o.a.xs.e)), {"ok"}) ELSE RP(o, PMissing, {"AttributeError", "TypeError"})
    [] g = "p_times_2" -> LET r == ReadProp(CT, o, "p") IN IF r.res = {"ok"} /\ IsIntLike(r.v) THEN RP(r.o, PInt(2 * IntVal(r.v)), {"ok"}) ELSE RP(o, PMissing, {"AttributeError", "TypeError"})
\* a read: the stored entry (override or cache) if any, else the getter on current state; cached when caching is on
ReadProp(CT, o, p) ==
  IF ~IsMissing(o.x[p]) THEN RP(o, o.x[p], {"ok"})
  ELSE LET pd == PropDef(CT, o.c, p) g == EvalGetter(CT, o, pd.getter) IN
       IF g.res # {"ok"} THEN RP(o, PMissing, g.res)
       ELSE RP(IF pd.cache THEN [g.o EXCEPT !.x[p] = g.v] ELSE g.o, g.v, {"ok"})
\* what a read returns WITHOUT the caches: the declarative reference for freshness
RECURSIVE Recompute(_, _, _)
Recompute(CT, o, p) == LET blank == [o EXCEPT !.x = [q \in DOMAIN o.x |-> IF o.ov[q] THEN o.x[q] ELSE PMissing]] IN ReadProp(CT, blank, p).v
\* C11: a cache entry never differs from what the getter gives on current state
Fresh(CT, o) == \A p \in PropNames(CT, o.c) : (~IsMissing(o.x[p]) /\ ~o.ov[p]) => o.x[p] = Recompute(CT, o, p)
\* managed attributes declared invalidated_by are back at their default unless re-assigned since (not tracked): only property caches are judged by Fresh

\* ------------------------------------------------------------------ the step function
Frozen(CT, o) == CT[o.c].frozen
IsInplaceForm(act) == act.op \in {"setattr", "delattr", "read", "override", "delprop"} \/ ("inplace" \in DOMAIN act /\ act.inplace)
Apply(CT, o, act) ==
  LET noop == [val |-> o, res |-> {"ok"}, same |-> TRUE]
      out(r, inplace) == [val |-> r.val, res |-> r.res, same |-> inplace]
      inpl == IsInplaceForm(act) \/ CT[o.c].dnc          \* a class declared do_not_copy=True: "all mutations will be done inplace"
  IN CASE act.op = "with"      -> IF act.v = Unchanged THEN noop ELSE out(With(CT, o, act.attr, act.v, act.kw), inpl)
         [] act.op = "update"    -> IF act.v = Unchanged THEN noop ELSE out(UpdateA(CT, o, act.attr, act.v, act.kw), inpl)
         [] act.op = "transform" -> out(TransformA(CT, o, act.attr, act.f, act.kwf), inpl)
         [] act.op = "reset"     -> out(ResetA(CT, o, act.attr), inpl)
         [] act.op = "setattr"   -> out(With(CT, o, act.attr, act.v, <<>>), TRUE)
         \* del of an unset attribute without default raises AttributeError like any Python object
         [] act.op = "delattr"   -> IF IsMissing(o.a[act.attr]) /\ IsMissing(DefaultOf(CT, o.c, act.attr)) THEN [val |-> o, res |-> {"AttributeError"}, same |-> TRUE]
                                    ELSE out(ResetA(CT, o, act.attr), TRUE)
         [] act.op \in {"with_item", "update_item", "transform_item", "without_item"} -> out(ElemHelper(CT, o, act), inpl)
         \* update(<replacement instance>, **kw): the result is (a copy of) the replacement with the keywords applied; neither the receiver
         \* nor the object handed in changes (the in-place form is not documented)
         \* Cls(**kw) called while the receiver exists: builds a new instance, touches neither the receiver nor the argument objects (C01, C04, C08)
         \* (what a user-written __post_init__ does to the fresh instance is not part of the class table: left open)
         [] act.op = "construct" -> IF "post" \in DOMAIN CT[o.c] /\ CT[o.c].post THEN [val |-> o, res |-> {"unspecified"}, same |-> TRUE] ELSE
                                    LET r == Construct(CT, o.c, act.kw) IN [val |-> IF IsOk(r) THEN r.val ELSE o, res |-> r.res, same |-> ~IsOk(r)]
         [] act.op = "update_repl" -> IF inpl THEN [val |-> o, res |-> {"unspecified"}, same |-> TRUE]
                                      ELSE IF act.kw = <<>> THEN [val |-> [act.v EXCEPT !.x = BlankX(CT, o.c), !.ov = BlankOv(CT, o.c)], res |-> {"ok"}, same |-> FALSE]
                                      ELSE LET r == UpdateTop(CT, [act.v EXCEPT !.x = BlankX(CT, o.c), !.ov = BlankOv(CT, o.c)], act.kw) IN
                                           [val |-> IF IsOk(r) THEN r.val ELSE o, res |-> r.res, same |-> ~IsOk(r)]
         [] act.op = "update_top" -> IF act.kw = <<>> THEN noop
                                     ELSE out(UpdateTop(CT, o, act.kw), inpl)
         [] act.op = "transform_top" -> IF act.kwf = <<>> THEN noop
                                           ELSE out(TransformTop(CT, o, act.kwf), inpl)
         [] act.op = "reset_top" -> IF \E a \in AttrSet(CT, o.c) : ~IsMissing(DefaultOf(CT, o.c, a)) /\ ~ConfC(CT, DefaultOf(CT, o.c, a), ASpec(CT, o.c, a).ty)
                                    THEN [val |-> o, res |-> {"TypeError"}, same |-> inpl] ELSE out(Ok(ResetAll(CT, o, 1)), inpl)
         [] act.op = "read"     -> LET r == ReadProp(CT, o, act.p) IN [val |-> IF r.res = {"ok"} THEN r.o ELSE o, res |-> r.res, same |-> TRUE, ret |-> r.v]
         [] act.op = "override" -> [val |-> Invalidate(CT, [o EXCEPT !.x[act.p] = act.v, !.ov[act.p] = TRUE], act.p), res |-> {"ok"}, same |-> TRUE]
         [] act.op = "delprop"  -> IF IsMissing(o.x[act.p]) THEN [val |-> o, res |-> {"AttributeError"}, same |-> TRUE]
                                   ELSE [val |-> Invalidate(CT, [o EXCEPT !.x[act.p] = PMissing, !.ov[act.p] = FALSE], act.p), res |-> {"ok"}, same |-> TRUE]


IsNoopForm(act) == \/ (act.op = "update_top" /\ act.kw = <<>>) \/ (act.op = "transform_top" /\ act.kwf = <<>>)
                   \/ (act.op \in {"with", "update", "setattr"} /\ act.v = Unchanged)
StepF(CT, o, act) ==
  LET noop == [val |-> o, res |-> {"ok"}, same |-> TRUE]
      out(r, inplace) == [val |-> r.val, res |-> r.res, same |-> inplace]
      inpl == IsInplaceForm(act) \/ CT[o.c].dnc          \* (a do_not_copy=True class works in place: on a frozen one that is rejected like any in-place call)
  IN
  \* a keyword outside the advertised signature is rejected by the generated wrapper before anything else (C17)
  IF act.op \in {"update_top", "update_repl"} /\ ~(KwNames(act.kw) \subseteq AttrSet(CT, o.c)) THEN [val |-> o, res |-> {"TypeError"}, same |-> TRUE]
  ELSE IF act.op = "transform_top" /\ ~(KwNames(act.kwf) \subseteq AttrSet(CT, o.c)) THEN [val |-> o, res |-> {"TypeError"}, same |-> TRUE]
  ELSE IF "iff" \in DOMAIN act /\ ~act.iff THEN noop
  \* (reading a cached property of a frozen instance fills its cache: not an observable change, and not rejected)
  ELSE IF inpl /\ act.op \notin {"read", "construct", "update_repl"} /\ Frozen(CT, o) /\ ~IsNoopForm(act) THEN
       \* rejected; when the call would fail anyway for another reason that report is acceptable too
       [val |-> o, res |-> IF "unspecified" \in Apply(CT, o, act).res THEN {"unspecified"}
                           ELSE {"FrozenInstanceError"} \cup (Apply(CT, o, act).res \ {"ok"}), same |-> TRUE]
  ELSE Apply(CT, o, act)

Step(CT, o, act) == StepF(CT, o, act)
=============================================================================
