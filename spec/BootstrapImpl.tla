---------------------------- MODULE BootstrapImpl ----------------------------
(* Implementation-shaped model of lazy bootstrapping of one class with two Attr(...) declarations (C19).
   Design:  "as_is"         no synchronisation; metadata published before the methods are registered
            "lock_bootstrap" a lock around bootstrap only (publication still precedes method registration and
                             readers of already-published metadata take no lock)
            "publish_last"   the placeholder stays in place (and serialises every reader through the lock) until
                             the class is complete                                                   -- the fix *)
EXTENDS Integers, FiniteSets, TLC
CONSTANTS Threads, Design

(* --algorithm boot
variables meta = "placeholder",           \* what the class's __spec_class__ slot holds
          pending = "none",               \* metadata handed out through the placeholder while bootstrapping (publish_last)
          methods = FALSE,                \* generated methods registered
          decl = [a \in {"x", "y"} |-> "declared"],
          lock = "none",
          published = "none",             \* quality of the metadata other threads can see: good / bad
          boots = 0,                      \* how many bootstraps ran
          seen = [t \in Threads |-> "none"];

process T \in Threads
  variables mine = "good", doit = FALSE;
begin
  trig: if meta = "placeholder" then
          if Design # "as_is" then
  lk:       await lock \in {"none", self}; lock := self;
          end if;
  chk:    doit := (Design = "as_is") \/ (meta = "placeholder" /\ pending = "none");
          if doit then
            boots := boots + 1;
  rx:       if decl["x"] # "declared" then mine := "bad"; end if;
  cx:       decl["x"] := "consumed";
  ry:       if decl["y"] # "declared" then mine := "bad"; end if;
  cy:       decl["y"] := "consumed";
  pub:      if Design = "publish_last" then pending := mine; else meta := "metadata"; published := mine; end if;
  reg:      methods := TRUE;
  fin:      if Design = "publish_last" then meta := "metadata"; published := pending; end if;
          end if;
  ul:     if Design # "as_is" then lock := "none"; end if;
        end if;
  obs:  seen[self] := IF meta = "metadata" /\ methods THEN published ELSE IF meta = "metadata" THEN "partial" ELSE "placeholder";
end process;
end algorithm; *)
\* BEGIN TRANSLATION
VARIABLES pc, meta, pending, methods, decl, lock, published, boots, seen, 
          mine, doit

vars == << pc, meta, pending, methods, decl, lock, published, boots, seen, 
           mine, doit >>

ProcSet == (Threads)

Init == (* Global variables *)
        /\ meta = "placeholder"
        /\ pending = "none"
        /\ methods = FALSE
        /\ decl = [a \in {"x", "y"} |-> "declared"]
        /\ lock = "none"
        /\ published = "none"
        /\ boots = 0
        /\ seen = [t \in Threads |-> "none"]
        (* Process T *)
        /\ mine = [self \in Threads |-> "good"]
        /\ doit = [self \in Threads |-> FALSE]
        /\ pc = [self \in ProcSet |-> "trig"]

trig(self) == /\ pc[self] = "trig"
              /\ IF meta = "placeholder"
                    THEN /\ IF Design # "as_is"
                               THEN /\ pc' = [pc EXCEPT ![self] = "lk"]
                               ELSE /\ pc' = [pc EXCEPT ![self] = "chk"]
                    ELSE /\ pc' = [pc EXCEPT ![self] = "obs"]
              /\ UNCHANGED << meta, pending, methods, decl, lock, published, 
                              boots, seen, mine, doit >>

chk(self) == /\ pc[self] = "chk"
             /\ doit' = [doit EXCEPT ![self] = (Design = "as_is") \/ (meta = "placeholder" /\ pending = "none")]
             /\ IF doit'[self]
                   THEN /\ boots' = boots + 1
                        /\ pc' = [pc EXCEPT ![self] = "rx"]
                   ELSE /\ pc' = [pc EXCEPT ![self] = "ul"]
                        /\ boots' = boots
             /\ UNCHANGED << meta, pending, methods, decl, lock, published, 
                             seen, mine >>

rx(self) == /\ pc[self] = "rx"
            /\ IF decl["x"] # "declared"
                  THEN /\ mine' = [mine EXCEPT ![self] = "bad"]
                  ELSE /\ TRUE
                       /\ mine' = mine
            /\ pc' = [pc EXCEPT ![self] = "cx"]
            /\ UNCHANGED << meta, pending, methods, decl, lock, published, 
                            boots, seen, doit >>

cx(self) == /\ pc[self] = "cx"
            /\ decl' = [decl EXCEPT !["x"] = "consumed"]
            /\ pc' = [pc EXCEPT ![self] = "ry"]
            /\ UNCHANGED << meta, pending, methods, lock, published, boots, 
                            seen, mine, doit >>

ry(self) == /\ pc[self] = "ry"
            /\ IF decl["y"] # "declared"
                  THEN /\ mine' = [mine EXCEPT ![self] = "bad"]
                  ELSE /\ TRUE
                       /\ mine' = mine
            /\ pc' = [pc EXCEPT ![self] = "cy"]
            /\ UNCHANGED << meta, pending, methods, decl, lock, published, 
                            boots, seen, doit >>

cy(self) == /\ pc[self] = "cy"
            /\ decl' = [decl EXCEPT !["y"] = "consumed"]
            /\ pc' = [pc EXCEPT ![self] = "pub"]
            /\ UNCHANGED << meta, pending, methods, lock, published, boots, 
                            seen, mine, doit >>

pub(self) == /\ pc[self] = "pub"
             /\ IF Design = "publish_last"
                   THEN /\ pending' = mine[self]
                        /\ UNCHANGED << meta, published >>
                   ELSE /\ meta' = "metadata"
                        /\ published' = mine[self]
                        /\ UNCHANGED pending
             /\ pc' = [pc EXCEPT ![self] = "reg"]
             /\ UNCHANGED << methods, decl, lock, boots, seen, mine, doit >>

reg(self) == /\ pc[self] = "reg"
             /\ methods' = TRUE
             /\ pc' = [pc EXCEPT ![self] = "fin"]
             /\ UNCHANGED << meta, pending, decl, lock, published, boots, seen, 
                             mine, doit >>

fin(self) == /\ pc[self] = "fin"
             /\ IF Design = "publish_last"
                   THEN /\ meta' = "metadata"
                        /\ published' = pending
                   ELSE /\ TRUE
                        /\ UNCHANGED << meta, published >>
             /\ pc' = [pc EXCEPT ![self] = "ul"]
             /\ UNCHANGED << pending, methods, decl, lock, boots, seen, mine, 
                             doit >>

ul(self) == /\ pc[self] = "ul"
            /\ IF Design # "as_is"
                  THEN /\ lock' = "none"
                  ELSE /\ TRUE
                       /\ lock' = lock
            /\ pc' = [pc EXCEPT ![self] = "obs"]
            /\ UNCHANGED << meta, pending, methods, decl, published, boots, 
                            seen, mine, doit >>

lk(self) == /\ pc[self] = "lk"
            /\ lock \in {"none", self}
            /\ lock' = self
            /\ pc' = [pc EXCEPT ![self] = "chk"]
            /\ UNCHANGED << meta, pending, methods, decl, published, boots, 
                            seen, mine, doit >>

obs(self) == /\ pc[self] = "obs"
             /\ seen' = [seen EXCEPT ![self] = IF meta = "metadata" /\ methods THEN published ELSE IF meta = "metadata" THEN "partial" ELSE "placeholder"]
             /\ pc' = [pc EXCEPT ![self] = "Done"]
             /\ UNCHANGED << meta, pending, methods, decl, lock, published, 
                             boots, mine, doit >>

T(self) == trig(self) \/ chk(self) \/ rx(self) \/ cx(self) \/ ry(self)
              \/ cy(self) \/ pub(self) \/ reg(self) \/ fin(self)
              \/ ul(self) \/ lk(self) \/ obs(self)

(* Allow infinite stuttering to prevent deadlock on termination. *)
Terminating == /\ \A self \in ProcSet: pc[self] = "Done"
               /\ UNCHANGED vars

Next == (\E self \in Threads: T(self))
           \/ Terminating

Spec == Init /\ [][Next]_vars

Termination == <>(\A self \in ProcSet: pc[self] = "Done")

\* END TRANSLATION
InvEquivalent == \A t \in Threads : seen[t] \in {"none", "good"}
InvSingle     == boots <= 1
=============================================================================
