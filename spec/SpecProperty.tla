---------------------------- MODULE SpecProperty ----------------------------
(* spec_property state machine: all 16 option combinations x 3 hosts (chosen in Init), operational
   slot model + declarative ghost (override, cache-since-last-deletion); C12. *)
EXTENDS SpecPropertyOps, TLC, Json, IOUtils, SequencesExt
CONSTANTS Dev
VARIABLES cfg, st, g, last
vars == <<cfg, st, g, last>>
View == <<cfg, st, g>>

Cfgs == [ov : BOOLEAN, cache : BOOLEAN, fset : BOOLEAN, fdel : BOOLEAN, host : {"plain", "unmanaged", "managed", "items"}]
Acts == {[op |-> "read"], [op |-> "delete"]} \cup {[op |-> "assign", v |-> v] : v \in {I(5), S("s"), PN}}
        \cup {[op |-> "under", u |-> u] : u \in 0..2}

Init == /\ cfg \in Cfgs /\ st = [entry |-> N, under |-> 0, backing |-> N] /\ g = [ov |-> N, ca |-> N]
        /\ last = [a |-> [op |-> "init"], res |-> "ok", val |-> N]
Next == \E a \in Acts : LET r == SPStep(Dev, cfg, st, a) IN
          /\ st' = r.st /\ cfg' = cfg
          /\ g' = Ghost(cfg, g, a, r.res, r.val)
          /\ last' = [a |-> a, res |-> r.res, val |-> r.val]
Spec == Init /\ [][Next]_vars

\* the single dict slot implements (override, cache)
InvSlot == st.entry = (IF g.ov # N THEN g.ov ELSE IF cfg.cache THEN g.ca ELSE N)
\* every read follows override > cache since last deletion > getter(current state)
PropPriority == [][last'.a.op = "read" => LET p == Priority(cfg, g, st.under) IN last'.res = p.res /\ last'.val = p.val]_vars
PropAssign == [][last'.a.op = "assign" /\ Conf(cfg, Prep(cfg, last'.a.v)) =>
                    IF MayAssign(cfg) THEN last'.res = "ok" ELSE last'.res = "AttributeError" /\ st' = st]_vars
PropDelete == [][last'.a.op = "delete" => IF MustRaiseOnDelete(cfg, g) THEN last'.res = "AttributeError" /\ st' = st ELSE last'.res = "ok"]_vars
PropTyped == [][(last'.res \in {"TypeError", "ValueError"} => st' = st) /\ (Managed(cfg) /\ st'.entry # N => st'.entry.t \in {"int", "elist"})]_vars

ASSUME IF "VERIF_ACTS" \in DOMAIN IOEnv THEN JsonSerialize(IOEnv.VERIF_ACTS, SetToSeq(Acts)) ELSE TRUE
=============================================================================
