------------------------------ MODULE Signature ------------------------------
(* Model checking of the binding rule itself (C17): over all small signatures and calls, Binds agrees with a second,
   constructive formulation (assign positionals, then keywords, then check nothing required is left). *)
EXTENDS SigOps, TLC
VARIABLES sig, call
vars == <<sig, call>>
ParamNames == {"a", "b", "c"}
Kinds == {"pos", "kwonly"}
Sigs == {s \in UNION {[1..n -> [n : ParamNames, kind : Kinds \cup {"varkw"}, hasd : BOOLEAN]] : n \in 0..3} :
           /\ \A i, j \in DOMAIN s : i # j => s[i].n # s[j].n
           /\ \A i, j \in DOMAIN s : i < j => ~(s[i].kind = "kwonly" /\ s[j].kind = "pos") /\ s[i].kind # "varkw"
           /\ \A i, j \in DOMAIN s : (i < j /\ s[i].kind = "pos" /\ s[j].kind = "pos" /\ s[i].hasd) => s[j].hasd}
Calls == {[npos |-> p, kws |-> k] : p \in 0..3, k \in {<<>>} \cup {<<x>> : x \in ParamNames \cup {"zz"}} \cup {<<x, y>> : x \in ParamNames \cup {"zz"}, y \in ParamNames}}
Init == sig \in Sigs /\ call \in Calls
Next == UNCHANGED vars
Spec == Init /\ [][Next]_vars
\* constructive binding
Bound2 ==
  LET P == Pos(sig)
      tooMany == call.npos > Len(P)
      bypos == IF tooMany THEN {} ELSE {P[j].n : j \in 1..call.npos}
      RECURSIVE Go(_, _)
      Go(bound, i) == IF i > Len(call.kws) THEN [ok |-> TRUE, b |-> bound]
                      ELSE LET k == call.kws[i] IN
                           IF k \in bound THEN [ok |-> FALSE, b |-> bound]
                           ELSE IF \E j \in 1..Len(sig) : sig[j].n = k /\ sig[j].kind # "varkw" THEN Go(bound \cup {k}, i + 1)
                           ELSE IF HasKind(sig, "varkw") THEN Go(bound \cup {k}, i + 1) ELSE [ok |-> FALSE, b |-> bound]
      r == Go(bypos, 1)
  IN ~tooMany /\ r.ok /\ \A j \in 1..Len(sig) : (sig[j].kind # "varkw" /\ ~sig[j].hasd) => sig[j].n \in r.b
InvBindsAgree == Binds(sig, call) = Bound2
=============================================================================
