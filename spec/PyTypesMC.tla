------------------------------ MODULE PyTypesMC ------------------------------
(* Enumerator for C15: the annotation terms up to depth 1 (and a depth-2 layer), the value pool, and
   algebraic laws of Conforms model-checked over all (annotation, value) pairs.  Conforms is a
   function, not a state machine: TLC is used as enumerator and evaluator (DESIGN.md C15). *)
EXTENDS PyTypes, TLC, Json, IOUtils, SequencesExt
CONSTANTS Depth2            \* BOOLEAN: include the depth-2 layer in the model-checked pair space
VARIABLES T, v
vars == <<T, v>>

ObjA == PObj("A", <<>>)  ObjB == PObj("B", <<>>)  ObjC == PObj("C", <<>>)
ObjK == PObj("K", [x |-> PInt(1)])
Scalars == {PInt(0), PInt(1), PInt(-1), PInt(5), PBool(TRUE), PBool(FALSE), PFlt(0), PFlt(1), PFlt(5), PFlt(-1),
            PStr(""), PStr("a"), PByt("a"), PNone, ObjA, ObjB, ObjC, ObjK,
            PCls("A"), PCls("B"), PCls("C"), PCls("int"), PCls("bool")}
E == {PInt(1), PBool(TRUE), PStr("a"), PNone, PFlt(1), ObjA, ObjB}        \* element sub-pool
H == {PInt(1), PStr("a"), PNone, PFlt(1), ObjA}                            \* hashable element sub-pool
Seqs2 == {<<>>} \cup {<<x>> : x \in E} \cup {<<x, y>> : x \in E, y \in E}
Sets2 == {s \in SUBSET H : Cardinality(s) <= 2}
Dicts == {<<>>} \cup {<<[k |-> k, v |-> x]>> : k \in {PStr("a"), PInt(1)}, x \in E}
         \cup {<<[k |-> PStr("a"), v |-> x], [k |-> PInt(1), v |-> y]>> : x \in {PInt(1), PStr("a")}, y \in {PInt(1), PNone, ObjB}}
Nested == {PLst(<<PLst(<<PInt(1)>>)>>), PLst(<<PLst(<<PStr("a")>>), PLst(<<>>)>>), PLst(<<PTup(<<PInt(1), PStr("a")>>)>>),
           PDct(<<[k |-> PStr("a"), v |-> PLst(<<PInt(1)>>)]>>), PDct(<<[k |-> PStr("a"), v |-> PLst(<<PNone>>)]>>),
           PTup(<<PLst(<<PInt(1)>>), PNone>>), PLst(<<PSet(<<PInt(1)>>)>>), PLst(<<PDct(<<[k |-> PInt(1), v |-> PInt(1)]>>)>>)}
Pool == Scalars \cup {PLst(s) : s \in Seqs2} \cup {PTup(s) : s \in Seqs2} \cup {PSet(SetToSeq(s)) : s \in Sets2} \cup {PDct(d) : d \in Dicts} \cup Nested

Bases  == {TBase(n) : n \in {"int", "float", "str", "bool", "bytes", "none"}}
Lits   == {TLit(<<PInt(1), PStr("a")>>), TLit(<<PBool(TRUE)>>), TLit(<<PNone, PInt(0)>>)}
B(b, x) == [b |-> b, x |-> x]
Bnds   == {TBounded("int", B("ge", 0), NoBound), TBounded("int", B("gt", 0), NoBound), TBounded("float", NoBound, B("le", 0)),
           TBounded("float", NoBound, B("lt", 0)), TBounded("int", B("ge", -1), B("le", 1)), TBounded("float", B("gt", 0), B("lt", 5))}
Types0 == {TAny} \cup Bases \cup {TUser("A"), TUser("B"), TUser("C"), TUser("K")} \cup Lits \cup Bnds \cup {TValidated("even"), TValidated("nonempty")}
Small  == {TAny, TBase("int"), TBase("float"), TBase("str"), TBase("none"), TUser("A"), TLit(<<PInt(1), PStr("a")>>), TBounded("int", B("ge", 0), NoBound)}
Keys   == {TBase("str"), TBase("int"), TAny, TLit(<<PInt(1), PStr("a")>>)}
Types1 ==    {TList(a) : a \in Types0} \cup {TSet(a) : a \in Types0} \cup {TTupVar(a) : a \in Types0}
        \cup {TUnion(<<a, TBase("none")>>) : a \in Types0}
        \cup {TDict(a, b) : a \in Keys, b \in Types0}
        \cup {TTup(<<>>)} \cup {TTup(<<a>>) : a \in Types0} \cup {TTup(<<a, b>>) : a \in Small, b \in Small}
        \cup {TType(c) : c \in {"A", "B", "C", "int", "any"}}
        \cup {TTypeU(<<"A", "int">>), TTypeU(<<"B", "C">>), TTypeU(<<"int", "str">>)}
        \cup {TUnion(<<a, b>>) : a \in Small \cup {TBase("bool"), TUser("B")}, b \in Small \cup {TBase("bool"), TUser("B")}}
Mid    == {TList(TBase("int")), TList(TBase("str")), TDict(TBase("str"), TBase("int")), TTup(<<TBase("int"), TBase("str")>>), TSet(TBase("int")),
           TUnion(<<TBase("int"), TBase("none")>>), TTupVar(TBase("int")), TList(TAny), TUnion(<<TBase("int"), TBase("str")>>)}
Types2 ==    {TList(a) : a \in Mid} \cup {TDict(TBase("str"), a) : a \in Mid} \cup {TUnion(<<a, TBase("none")>>) : a \in Mid}
        \cup {TUnion(<<a, b>>) : a \in Mid, b \in Small} \cup {TTup(<<a, b>>) : a \in Mid, b \in Small} \cup {TTupVar(a) : a \in Mid}
AllTypes == Types0 \cup Types1 \cup (IF Depth2 THEN Types2 ELSE {})

Init == T \in AllTypes /\ v \in Pool
Next == UNCHANGED vars
Spec == Init /\ [][Next]_vars

LawAny      == Conforms(v, TAny)
LawOptional == Conforms(v, TUnion(<<T, TBase("none")>>)) = (Conforms(v, T) \/ v = PNone)
LawListLift == Conforms(PLst(<<v>>), TList(T)) = Conforms(v, T) /\ Conforms(PLst(<<>>), TList(T))
LawTuple    == Conforms(PTup(<<v, v>>), TTupVar(T)) = Conforms(v, T) /\ Conforms(PTup(<<v, v>>), TTup(<<T, T>>)) = Conforms(v, T)
               /\ ~Conforms(PTup(<<v>>), TTup(<<T, T>>))
LawDict     == Conforms(PDct(<<[k |-> PStr("a"), v |-> v]>>), TDict(TBase("str"), T)) = Conforms(v, T)
               /\ (Conforms(v, T) => ~Conforms(PDct(<<[k |-> PInt(1), v |-> v]>>), TDict(TBase("str"), T)))
LawTower    == (Conforms(v, TBase("bool")) => Conforms(v, TBase("int"))) /\ (Conforms(v, TBase("int")) => Conforms(v, TBase("float")))
LawUnionMono == Conforms(v, T) => Conforms(v, TUnion(<<TBase("bytes"), T>>))

ASSUME IF "VERIF_ACTS" \in DOMAIN IOEnv
       THEN JsonSerialize(IOEnv.VERIF_ACTS, [types |-> SetToSeq(Types0 \cup Types1), types2 |-> SetToSeq(Types2), pool |-> SetToSeq(Pool)]) ELSE TRUE
=============================================================================
