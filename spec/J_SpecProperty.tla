--------------------------- MODULE J_SpecProperty ---------------------------
(* Judge for C12: each event is one complete access path through a real spec_property ("sp") or
   classproperty ("cp"); the model is run along the observed path (operational Step from the observed
   pre-state, declarative Priority from the ghost reconstructed from observed outcomes). *)
EXTENDS SpecPropertyOps, TLC, Json, IOUtils, SequencesExt
VARIABLE dummy
Events == ndJsonDeserialize(IOEnv.VERIF_EVENTS)
NE == Len(Events)

SPStepFail(cfg, st, g, s) ==
  LET r == SPStep({}, cfg, st, s.a) p == Priority(cfg, g, st.under) IN
     (IF s.res # r.res \/ s.val # r.val \/ s.st # r.st THEN {"step"} ELSE {})
  \cup (IF s.a.op = "read" /\ (s.res # p.res \/ s.val # p.val) THEN {"protocol_read"} ELSE {})
  \cup (IF ~IsFrozen(cfg) /\ s.a.op = "assign" /\ Conf(cfg, Prep(cfg, s.a.v)) /\
           ~(IF MayAssign(cfg) THEN s.res = "ok" ELSE s.res = "AttributeError" /\ s.st = st) THEN {"assign_guard"} ELSE {})
  \cup (IF IsFrozen(cfg) /\ s.a.op # "read" /\ (s.res # "FrozenInstanceError" \/ s.st # st) THEN {"frozen_host_mutated"} ELSE {})
  \cup (IF ~IsFrozen(cfg) /\ s.a.op = "delete" /\ ~(IF MustRaiseOnDelete(cfg, g) THEN s.res = "AttributeError" /\ s.st = st ELSE s.res = "ok") THEN {"delete_rule"} ELSE {})
  \cup (IF (s.res # "ok" /\ s.st # st) \/ (Managed(cfg) /\ s.st.entry # N /\ s.st.entry.t \notin {"int", "elist"}) THEN {"typed_or_atomic"} ELSE {})

RECURSIVE SPRun(_, _, _, _, _)
SPRun(cfg, st, g, steps, i) ==
  IF i > Len(steps) THEN {}
  ELSE LET s == steps[i] IN {<<i, c>> : c \in SPStepFail(cfg, st, g, s)} \cup SPRun(cfg, s.st, Ghost(cfg, g, s.a, s.res, s.val), steps, i + 1)

CPStepFail(cfg, st, s) ==
  LET r == CPStep(cfg, st, s.a) IN
     (IF s.res # r.res \/ s.val # r.val \/ s.st # r.st THEN {"cp_step"} ELSE {})
  \cup (IF \E k \in CPKeys : s.st.c[k] # st.c[k] /\ ~(s.a.op \in {"read", "assign", "delete"} /\ k = CKey(cfg, s.a.c)) THEN {"cp_isolation"} ELSE {})
RECURSIVE CPRun(_, _, _, _)
CPRun(cfg, st, steps, i) ==
  IF i > Len(steps) THEN {} ELSE LET s == steps[i] IN {<<i, c>> : c \in CPStepFail(cfg, st, s)} \cup CPRun(cfg, s.st, steps, i + 1)

Failing(e) == IF e.kind = "sp" THEN SPRun(e.cfg, SPInit(e.cfg), GInit(e.cfg), e.steps, 1)
              ELSE CPRun(e.cfg, CPInit, e.steps, 1)
F == [i \in 1..NE |-> Failing(Events[i])]
BadIdx == {i \in 1..NE : F[i] # {}}
Bad == UNION {{[i |-> i, c |-> f[2], d |-> ToString(f[1])] : f \in F[i]} : i \in BadIdx}
Steps(P(_)) == FoldSeq(LAMBDA e, acc : acc + Cardinality({j \in 1..Len(e.steps) : P(e.steps[j])}), 0, Events)
Ante == [reads |-> Steps(LAMBDA s : s.a.op = "read"),
         rejected_assign |-> Steps(LAMBDA s : s.a.op = "assign" /\ s.res = "AttributeError"),
         rejected_delete |-> Steps(LAMBDA s : s.a.op = "delete" /\ s.res = "AttributeError"),
         type_errors |-> Steps(LAMBDA s : s.res \in {"TypeError", "ValueError"}),
         steps |-> Steps(LAMBDA s : TRUE)]
ASSUME JsonSerialize(IOEnv.VERIF_OUT, <<[bad |-> SetToSeq(Bad), n |-> NE, ante |-> Ante]>>)
Init == dummy = 0
Next == UNCHANGED dummy
=============================================================================
