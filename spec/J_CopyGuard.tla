----------------------------- MODULE J_CopyGuard -----------------------------
(* Judge for C20: recorded executions of the real guard must be behaviours of CopyGuardOps. *)
EXTENDS CopyGuardOps, TLC, Json, IOUtils, SequencesExt
VARIABLE dummy
Events == ndJsonDeserialize(IOEnv.VERIF_EVENTS)
N == Len(Events)
TraceFailing(e) ==
  LET st == e.states n == Len(st) IN
     (IF \E i \in 1..n : ~Quiescent(e.table0, st[i]) THEN {"quiescent_table_dirty"} ELSE {})
  \cup (IF \E i \in 1..n : ~Safe(st[i]) THEN {"copy_without_protection"} ELSE {})
  \cup (IF \E i \in 1..n : ~ForeignUntouched(e.table0, st[i]) THEN {"foreign_entry_touched"} ELSE {})
  \cup (IF \E i \in 1..(n - 1) : st[i + 1] \notin Succ(e.table0, st[i]) THEN {"not_a_protocol_step"} ELSE {})
  \cup (IF e.final_table # e.table0 THEN {"final_table"} ELSE {})
  \cup (IF ~e.all_ok THEN {"copy_failed"} ELSE {})
  \cup (IF \E t \in Thr(st[n]) : st[n].engaged[t] # 0 \/ st[n].copying[t] # 0 THEN {"trace_not_closed"} ELSE {})
FaultFailing(e) ==
     (IF e.final_table # e.table0 THEN {"table_dirty_after_abort"} ELSE {})
  \cup (IF ~e.later_ok THEN {"later_copy_failed"} ELSE {})
  \cup (IF e.later_table # e.table0 THEN {"later_table_dirty"} ELSE {})
Failing(e) == IF e.kind = "fault" THEN FaultFailing(e) ELSE TraceFailing(e)
F == [i \in 1..N |-> Failing(Events[i])]
BadIdx == {i \in 1..N : F[i] # {}}
Bad == UNION {{[i |-> i, c |-> c, d |-> ""] : c \in F[i]} : i \in BadIdx}
Ante == [traces |-> Cardinality({i \in 1..N : Events[i].kind # "fault"}),
         faults |-> Cardinality({i \in 1..N : Events[i].kind = "fault"}),
         installs |-> Cardinality({i \in 1..N : Events[i].kind # "fault" /\ \E j \in 1..Len(Events[i].states) : Events[i].states[j].table = "ours"}),
         nested |-> Cardinality({i \in 1..N : Events[i].kind # "fault" /\ \E j \in 1..Len(Events[i].states) : \E t \in Thr(Events[i].states[j]) : Events[i].states[j].engaged[t] >= 2})]
ASSUME JsonSerialize(IOEnv.VERIF_OUT, <<[bad |-> SetToSeq(Bad), n |-> N, ante |-> Ante]>>)
Init == dummy = 0
Next == UNCHANGED dummy
=============================================================================
