------------------------------ MODULE AliasColl ------------------------------
(* The alias machine for COLLECTION-typed aliases on a spec class (ys: List[int] = Alias("xs")): besides assignment and
   deletion the alias has element helpers, which must build their result from the value read through the alias and must
   not touch the target's own list (C18: "a local assignment shadows the target without modifying it"). *)
EXTENDS AliasOps, TLC, Json, IOUtils, SequencesExt
CONSTANTS Dev, MaxLen
VARIABLES cfg, st, last
vars == <<cfg, st, last>>
View == <<cfg, st>>
Cfgs == [pt : BOOLEAN, tr : {FALSE}, fb : {"none"}, path : {"t"}, host : {"spec"}, dep : {FALSE}, coll : {TRUE}]
Acts == {[op |-> o] : o \in {"read_alias", "delete_alias", "read_target", "deepcopy"}}
        \cup {[op |-> "write_alias", v |-> IL(<<5>>)], [op |-> "write_alias", v |-> I(5)], [op |-> "write_target", v |-> IL(<<3>>)], [op |-> "cow_alias", v |-> IL(<<6>>)]}
        \cup {[op |-> "cow_item_alias", v |-> I(7)], [op |-> "cow_item_target", v |-> I(4)]}
LenOf(v) == IF v.t = "ilist" THEN Len(v.e) ELSE 0
Init == cfg \in Cfgs /\ st = [target |-> IL(<<1>>), ov |-> N] /\ last = [a |-> [op |-> "init"], res |-> {"ok"}, val |-> N]
Next == \E a \in Acts : LET r == Step(Dev, cfg, st, a) IN
          /\ LenOf(r.st.target) <= MaxLen /\ LenOf(r.st.ov) <= MaxLen
          /\ st' = r.st /\ cfg' = cfg /\ last' = [a |-> a, res |-> r.res, val |-> r.val]
Spec == Init /\ [][Next]_vars
PropShadow == [][~cfg.pt /\ last'.a.op \in {"write_alias", "delete_alias", "cow_alias", "cow_item_alias"} => st'.target = st.target]_vars
PropLive   == [][last'.a.op = "read_alias" /\ (cfg.pt \/ st.ov = N) /\ st.target # N => last'.val = st.target]_vars
PropPassthrough == [][cfg.pt => st'.ov = N]_vars
PropItem   == [][last'.a.op = "cow_item_alias" /\ "ok" \in last'.res =>
                    LET seen == ReadAlias(Dev, cfg, st).val new == IF cfg.pt THEN st'.target ELSE st'.ov IN new = IL(Append(seen.e, last'.a.v.i))]_vars
ASSUME IF "VERIF_ACTS" \in DOMAIN IOEnv THEN JsonSerialize(IOEnv.VERIF_ACTS, SetToSeq(Acts)) ELSE TRUE
=============================================================================
