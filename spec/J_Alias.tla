------------------------------ MODULE J_Alias ------------------------------
(* Judge for C18: the model is run along each observed access path through a real Alias. *)
EXTENDS AliasOps, TLC, Json, IOUtils, SequencesExt
VARIABLE dummy
Events == ndJsonDeserialize(IOEnv.VERIF_EVENTS)
NE == Len(Events)
StepFail(cfg, st, s) ==
  LET r == Step({}, cfg, st, s.a) IN
     (IF "unspecified" \notin r.res /\ s.res \notin r.res THEN {"outcome"} ELSE {})
  \cup (IF "unspecified" \notin r.res /\ s.st # r.st THEN {"state"} ELSE {})
  \cup (IF "unspecified" \notin r.res /\ s.res = "ok" /\ s.val # r.val THEN {"value"} ELSE {})
  \cup (IF s.res # "ok" /\ s.st # st THEN {"atomic"} ELSE {})
  \cup (IF s.a.op = "read_alias" /\ s.res = "ok" /\ st.target = N /\ (cfg.pt \/ st.ov = N) /\ cfg.fb = "mut" /\ ~s.fresh THEN {"fallback_not_fresh"} ELSE {})
  \cup (IF s.a.op \in {"cow_alias", "cow_target", "deepcopy", "cow_item_alias", "cow_item_target"} /\ s.res = "ok" /\ ~s.orig_same THEN {"copy_changed_original"} ELSE {})
  \cup (IF cfg.dep /\ IsAliasAccess(s.a) /\ s.res # "TypeError" /\ s.warns < 1 THEN {"deprecated_no_warning"} ELSE {})
  \cup (IF (~cfg.dep \/ s.a.op \in {"read_target", "write_target", "delete_target"}) /\ s.warns > 0 THEN {"unexpected_warning"} ELSE {})
RECURSIVE Run(_, _, _, _)
Run(cfg, st, steps, i) == IF i > Len(steps) THEN {} ELSE LET s == steps[i] IN {<<i, c>> : c \in StepFail(cfg, st, s)} \cup Run(cfg, s.st, steps, i + 1)
Init0(cfg) == [target |-> IF IsColl(cfg) THEN IL(<<1>>) ELSE I(1), ov |-> N]
F == [i \in 1..NE |-> Run(Events[i].cfg, Init0(Events[i].cfg), Events[i].steps, 1)]
BadIdx == {i \in 1..NE : F[i] # {}}
Bad == UNION {{[i |-> i, c |-> f[2], d |-> ToString(f[1])] : f \in F[i]} : i \in BadIdx}
Steps(P(_)) == FoldSeq(LAMBDA e, acc : acc + Cardinality({j \in 1..Len(e.steps) : P(e.steps[j])}), 0, Events)
Ante == [alias_reads |-> Steps(LAMBDA s : s.a.op = "read_alias"),
         missing_target_reads |-> Steps(LAMBDA s : s.a.op = "read_alias" /\ s.st.target = N),
         errors |-> Steps(LAMBDA s : s.res # "ok"),
         warned |-> Steps(LAMBDA s : s.warns > 0),
         steps |-> Steps(LAMBDA s : TRUE)]
ASSUME JsonSerialize(IOEnv.VERIF_OUT, <<[bad |-> SetToSeq(Bad), n |-> NE, ante |-> Ante]>>)
Init == dummy = 0
Next == UNCHANGED dummy
=============================================================================
