---------------------------- MODULE KeyedListOps ----------------------------
(* Reference semantics of spec_classes.types.keyed.KeyedList  (property C13, C04-part).

   A KeyedList is a Python list whose items have pairwise distinct keys, plus a key index.
   This module is constant- and variable-free: everything is an operator over
     l    : the list, a sequence of items  [k |-> key, p |-> payload, bad |-> "no"|"item"|"key"]
     cfg  : [typed |-> BOOLEAN, intkeys |-> BOOLEAN]      (KeyedList[T, K] or bare; int-valued keys)
     a    : an action record  [op |-> ..., ...]
   so the same text is used by the state machine (KeyedList.tla, model checking + generation)
   and by the judge (J_KeyedList.tla, conformance of recorded real executions).

   Two formulations are given and model-checked against each other:
     Plain/Step  -- declarative: "the plain list operation, unless it would duplicate a key"
     OpStep      -- operational, shaped like the implementation: a list and a dict updated by
                    the primitives insert / delete, derived operations as the MutableSequence
                    mixin derives them, with the *intended* validate-then-commit discipline.
                    Named deviations (Dev) switch individual steps to what the code did before
                    the fix: commits (recorded in known_findings.json as fixed).
   "bad" marks an item of the wrong item type ("item"; "itemk" when its key is nevertheless a good one) or whose key has the wrong type ("key");
   they only occur in actions against typed containers. *)
EXTENDS Integers, Sequences, FiniteSets

\* ---------------------------------------------------------------- list helpers (0-based Python indices)
KeysOf(l)      == {l[j].k : j \in 1..Len(l)}
HasDup(l)      == \E i, j \in 1..Len(l) : i # j /\ l[i].k = l[j].k
Norm(n, i)     == IF i < 0 THEN i + n ELSE i                       \* Python index normalisation
InRange(n, i)  == Norm(n, i) >= 0 /\ Norm(n, i) < n
Clamp(n, i)    == LET j == Norm(n, i) IN IF j < 0 THEN 0 ELSE IF j > n THEN n ELSE j   \* list.insert rule
InsAt(l, pos, x) == SubSeq(l, 1, pos) \o <<x>> \o SubSeq(l, pos + 1, Len(l))       \* pos \in 0..Len(l)
RemAt(l, pos)    == SubSeq(l, 1, pos) \o SubSeq(l, pos + 2, Len(l))                \* pos \in 0..Len(l)-1
RepAt(l, pos, x) == [l EXCEPT ![pos + 1] = x]
Rev(l)         == [j \in 1..Len(l) |-> l[Len(l) + 1 - j]]
PosOfKey(l, k) == (CHOOSE j \in 1..Len(l) : l[j].k = k) - 1        \* linear scan; caller checks presence
FirstEq(l, x)  == (CHOOSE j \in 1..Len(l) : l[j] = x /\ \A m \in 1..(j-1) : l[m] # x) - 1
Occurs(l, x)   == \E j \in 1..Len(l) : l[j] = x
IsBad(cfg, x)  == cfg.typed /\ x.bad # "no"
AnyBad(cfg, xs) == \E j \in 1..Len(xs) : IsBad(cfg, xs[j])

None == <<>>          \* return value "nothing"
OK   == {"ok"}

R(l, res, ret) == [lst |-> l, res |-> res, ret |-> ret]
Fail(l, errs)  == R(l, errs, None)

\* ---------------------------------------------------------------- declarative: the plain list operation
(* Plain(l, a): what a Python list holding the same items does.  res is the SET of acceptable
   outcome classes ("ok" or exception class names): when several failure causes apply to one call
   no property fixes their precedence, so any of them is acceptable (DESIGN.md section 6). *)
Plain(l, a) ==
  LET n == Len(l) IN
  CASE a.op = "insert"  -> R(InsAt(l, Clamp(n, a.i), a.x), OK, None)
    [] a.op = "append"  -> R(Append(l, a.x), OK, None)
    [] a.op = "setidx"  -> IF InRange(n, a.i) THEN R(RepAt(l, Norm(n, a.i), a.x), OK, None)
                           ELSE Fail(l, {"IndexError"})
    [] a.op = "setkey"  -> IF a.k \in KeysOf(l) THEN R(RepAt(l, PosOfKey(l, a.k), a.x), OK, None)
                           ELSE Fail(l, {"KeyError"})
    [] a.op = "delidx"  -> IF InRange(n, a.i) THEN R(RemAt(l, Norm(n, a.i)), OK, None)
                           ELSE Fail(l, {"IndexError"})
    [] a.op = "delkey"  -> IF a.k \in KeysOf(l) THEN R(RemAt(l, PosOfKey(l, a.k)), OK, None)
                           ELSE Fail(l, {"KeyError"})
    [] a.op \in {"extend", "iadd"} -> R(l \o a.xs, OK, None)
    [] a.op = "pop"     -> IF InRange(n, a.i) THEN R(RemAt(l, Norm(n, a.i)), OK, <<l[Norm(n, a.i) + 1]>>)
                           ELSE Fail(l, {"IndexError"})
    [] a.op = "poplast" -> IF n > 0 THEN R(SubSeq(l, 1, n - 1), OK, <<l[n]>>) ELSE Fail(l, {"IndexError"})
    [] a.op = "remove"  -> IF Occurs(l, a.x) THEN R(RemAt(l, FirstEq(l, a.x)), OK, None)
                           ELSE Fail(l, {"ValueError"})
    [] a.op = "reverse" -> R(Rev(l), OK, None)
    [] a.op = "clear"   -> R(<<>>, OK, None)
    [] a.op = "add"     -> R(l, OK, l \o a.xs)            \* l + xs : new container, receiver untouched
    [] a.op = "radd"    -> R(l, OK, a.xs \o l)            \* xs + l

\* items an action brings in
Incoming(a) == IF a.op \in {"insert", "append", "setidx", "setkey"} THEN <<a.x>>
               ELSE IF a.op \in {"extend", "iadd", "add", "radd"} THEN a.xs ELSE <<>>
Mutates(a)  == a.op \notin {"add", "radd"}

(* Step: the KeyedList rule on top of Plain.
   - wrong item/key type on a typed container -> TypeError   (results of + / radd are bare
     KeyedLists, hence untyped: no type error there)
   - the plain result would hold two items with one key -> ValueError
   - every failing outcome leaves the list as it was. *)
Clean(cfg, l) == SelectSeq(l, LAMBDA x : ~IsBad(cfg, x))     \* ill-typed items have no meaningful key
Step(cfg, l, a) ==
  LET p      == Plain(l, a)
      inc    == Clean(cfg, Incoming(a))
      plainE == p.res \ OK
      tyErr  == IF Mutates(a) /\ AnyBad(cfg, Incoming(a)) THEN {"TypeError"} ELSE {}
      final  == Clean(cfg, IF Mutates(a) THEN p.lst ELSE p.ret)
      dupErr == IF p.res = OK /\ HasDup(final) THEN {"ValueError"} ELSE {}
      \* the plain operation itself fails (bad index/key) AND an incoming key collides:
      \* a duplicate-key report is tolerated but not demanded
      tol    == IF p.res # OK /\ \E j \in 1..Len(inc) : inc[j].k \in KeysOf(l) THEN {"ValueError"} ELSE {}
      errs   == plainE \cup tyErr \cup dupErr
  IN IF errs = {} THEN p ELSE Fail(l, errs \cup tol)

\* ---------------------------------------------------------------- reads (must agree with a linear scan)
GetIdx(l, i)  == IF InRange(Len(l), i) THEN [res |-> "ok", v |-> <<l[Norm(Len(l), i) + 1]>>] ELSE [res |-> "IndexError", v |-> None]
GetKey(l, k)  == IF k \in KeysOf(l) THEN [res |-> "ok", v |-> <<l[PosOfKey(l, k) + 1]>>] ELSE [res |-> "KeyError", v |-> None]
IndexForKey(l, k) == IF k \in KeysOf(l) THEN [res |-> "ok", v |-> PosOfKey(l, k)] ELSE [res |-> "KeyError", v |-> -1]
Count(l, x)   == Cardinality({j \in 1..Len(l) : l[j] = x})
IndexOf(l, x) == IF Occurs(l, x) THEN [res |-> "ok", v |-> FirstEq(l, x)] ELSE [res |-> "ValueError", v |-> -1]
\* Python slice l[lo:hi] with lo, hi already integers (no step)
SliceBound(n, b) == LET j == Norm(n, b) IN IF j < 0 THEN 0 ELSE IF j > n THEN n ELSE j
Slice(l, lo, hi) == LET n == Len(l) s == SliceBound(n, lo) e == SliceBound(n, hi) IN IF e > s THEN SubSeq(l, s + 1, e) ELSE <<>>
KeyPairs(l)   == {<<l[j].k, l[j]>> : j \in 1..Len(l)}           \* what items() must contain

\* ---------------------------------------------------------------- operational model (implementation-shaped)
(* state s = [lst, idx] where idx is the key index (a function KeysOf -> item).  Every primitive
   returns [s, res] ; res = "ok" or an exception class.  Derived operations are composed exactly
   as collections.abc.MutableSequence composes them. *)
S(l, d)       == [lst |-> l, idx |-> d]
IdxOf(l)      == [k \in KeysOf(l) |-> l[PosOfKey(l, k) + 1]]
O(s, res, ret) == [s |-> s, res |-> res, ret |-> ret]

OpInsert(cfg, s, i, x) ==
  IF IsBad(cfg, x) THEN O(s, "TypeError", None)
  ELSE IF x.k \in DOMAIN s.idx THEN O(s, "ValueError", None)
  ELSE O(S(InsAt(s.lst, Clamp(Len(s.lst), i), x), [k \in DOMAIN s.idx \cup {x.k} |-> IF k = x.k THEN x ELSE s.idx[k]]), "ok", None)

OpDelIdx(s, i) ==
  IF ~InRange(Len(s.lst), i) THEN O(s, "IndexError", None)
  ELSE LET v == s.lst[Norm(Len(s.lst), i) + 1]
       IN O(S(RemAt(s.lst, Norm(Len(s.lst), i)), [k \in DOMAIN s.idx \ {v.k} |-> s.idx[k]]), "ok", <<v>>)

\* intended __setitem__(int): validate, then replace in place
OpSetIdxGood(cfg, s, i, x) ==
  IF ~InRange(Len(s.lst), i) THEN O(s, "IndexError", None)
  ELSE IF IsBad(cfg, x) THEN O(s, "TypeError", None)
  ELSE LET pos == Norm(Len(s.lst), i) old == s.lst[pos + 1]
       IN IF x.k \in DOMAIN s.idx /\ x.k # old.k THEN O(s, "ValueError", None)
          ELSE O(S(RepAt(s.lst, pos, x),
                   [k \in (DOMAIN s.idx \ {old.k}) \cup {x.k} |-> IF k = x.k THEN x ELSE s.idx[k]]), "ok", None)

\* deviation "setitem_delete_first": __delitem__(i) then insert(i, x)   (the code before the fix)
OpSetIdxDelFirst(cfg, s, i, x) ==
  LET d == OpDelIdx(s, i) IN
  IF d.res # "ok" THEN O(s, d.res, None) ELSE LET r == OpInsert(cfg, d.s, i, x) IN O(r.s, r.res, None)

OpSetIdx(Dev, cfg, s, i, x) == IF "setitem_delete_first" \in Dev THEN OpSetIdxDelFirst(cfg, s, i, x) ELSE OpSetIdxGood(cfg, s, i, x)

RECURSIVE OpExtendStepwise(_, _, _)
OpExtendStepwise(cfg, s, xs) ==      \* deviation "extend_stepwise": MutableSequence.extend = append one by one
  IF xs = <<>> THEN O(s, "ok", None)
  ELSE LET r == OpInsert(cfg, s, Len(s.lst), Head(xs)) IN IF r.res # "ok" THEN r ELSE OpExtendStepwise(cfg, r.s, Tail(xs))

OpExtend(Dev, cfg, s, xs) ==
  IF "extend_stepwise" \in Dev THEN OpExtendStepwise(cfg, s, xs)
  ELSE \* intended: validate the whole batch first
       IF AnyBad(cfg, xs) THEN O(s, "TypeError", None)
       ELSE IF HasDup(s.lst \o xs) THEN O(s, "ValueError", None)
       ELSE O(S(s.lst \o xs, IdxOf(s.lst \o xs)), "ok", None)

RECURSIVE OpReverseSwaps(_, _, _, _)
OpReverseSwaps(Dev, cfg, s, i) ==    \* deviation "reverse_by_swaps": mixin reverse = pairwise __setitem__ swaps
  LET n == Len(s.lst) IN
  IF i >= n \div 2 THEN O(s, "ok", None)
  ELSE LET a == s.lst[i + 1] b == s.lst[n - i]
           r1 == OpSetIdx(Dev, cfg, s, i, b)
       IN IF r1.res # "ok" THEN r1
          ELSE LET r2 == OpSetIdx(Dev, cfg, r1.s, n - i - 1, a) IN IF r2.res # "ok" THEN r2 ELSE OpReverseSwaps(Dev, cfg, r2.s, i + 1)

OpReverse(Dev, cfg, s) ==
  IF "reverse_by_swaps" \in Dev THEN OpReverseSwaps(Dev, cfg, s, 0)
  ELSE O(S(Rev(s.lst), s.idx), "ok", None)

OpStep(Dev, cfg, s, a) ==
  LET n == Len(s.lst) IN
  CASE a.op = "insert"  -> OpInsert(cfg, s, a.i, a.x)
    [] a.op = "append"  -> OpInsert(cfg, s, n, a.x)
    [] a.op = "setidx"  -> OpSetIdx(Dev, cfg, s, a.i, a.x)
    [] a.op = "setkey"  -> IF a.k \notin DOMAIN s.idx THEN O(s, "KeyError", None) ELSE OpSetIdx(Dev, cfg, s, PosOfKey(s.lst, a.k), a.x)
    [] a.op = "delidx"  -> LET r == OpDelIdx(s, a.i) IN O(r.s, r.res, None)
    [] a.op = "delkey"  -> IF a.k \notin DOMAIN s.idx THEN O(s, "KeyError", None) ELSE LET r == OpDelIdx(s, PosOfKey(s.lst, a.k)) IN O(r.s, r.res, None)
    [] a.op \in {"extend", "iadd"} -> OpExtend(Dev, cfg, s, a.xs)
    [] a.op = "pop"     -> OpDelIdx(s, a.i)
    [] a.op = "poplast" -> OpDelIdx(s, -1)
    [] a.op = "remove"  -> IF Occurs(s.lst, a.x) THEN LET r == OpDelIdx(s, FirstEq(s.lst, a.x)) IN O(r.s, r.res, None) ELSE O(s, "ValueError", None)
    [] a.op = "reverse" -> OpReverse(Dev, cfg, s)
    [] a.op = "clear"   -> O(S(<<>>, IdxOf(<<>>)), "ok", None)
    [] a.op = "add"     -> IF HasDup(s.lst \o a.xs) THEN O(s, "ValueError", None) ELSE O(s, "ok", s.lst \o a.xs)
    [] a.op = "radd"    -> IF HasDup(a.xs \o s.lst) THEN O(s, "ValueError", None) ELSE O(s, "ok", a.xs \o s.lst)

\* ---------------------------------------------------------------- invariants as predicates
Unique(l)        == ~HasDup(l)
Coherent(l, d)   == d = IdxOf(l)
\* OpStep refines Step: same post list, outcome acceptable, same return value
Refines(Dev, cfg, l, a) ==
  LET d == Step(cfg, l, a) o == OpStep(Dev, cfg, S(l, IdxOf(l)), a)
  IN /\ o.res \in d.res
     /\ o.s.lst = d.lst
     /\ o.ret = d.ret
     /\ Coherent(o.s.lst, o.s.idx)
     /\ (o.res # "ok" => o.s.lst = l)
=============================================================================
