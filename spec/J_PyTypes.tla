------------------------------ MODULE J_PyTypes ------------------------------
(* Judge for C15: check_type(value, annotation) accepted  <=>  Conforms(value, annotation); never raises. *)
EXTENDS PyTypes, TLC, Json, IOUtils, SequencesExt
VARIABLE dummy
Events == ndJsonDeserialize(IOEnv.VERIF_EVENTS)
N == Len(Events)
Failing(e) ==
  IF e.res \notin {"accept", "reject"} THEN {"raised"}
  ELSE IF (e.res = "accept") # Conforms(e.v, e.T) THEN {IF e.res = "accept" THEN "accepted_nonconforming" ELSE "rejected_conforming"} ELSE {}
F == [i \in 1..N |-> Failing(Events[i])]
BadIdx == {i \in 1..N : F[i] # {}}
Bad == UNION {{[i |-> i, c |-> c, d |-> ""] : c \in F[i]} : i \in BadIdx}
Ante == [accepted |-> Cardinality({i \in 1..N : Events[i].res = "accept"}), rejected |-> Cardinality({i \in 1..N : Events[i].res = "reject"})]
ASSUME JsonSerialize(IOEnv.VERIF_OUT, <<[bad |-> SetToSeq(Bad), n |-> N, ante |-> Ante]>>)
Init == dummy = 0
Next == UNCHANGED dummy
=============================================================================
