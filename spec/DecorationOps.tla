--------------------------- MODULE DecorationOps ---------------------------
(* What decorating a class adds to it (property C16); every operator takes the class description D:
   D = [annots : Seq([n, fam]), body : Seq(name), priv : [name -> BOOLEAN],
        opts : [init, repr, eq : BOOLEAN, attrs : Seq(name), typed : Seq([n, fam]), skip : Seq(name), useskip : BOOLEAN],
        inh : Seq([n, fam]) managed attributes inherited from spec parents, sing : [name -> singular form] (input table)] *)
EXTENDS Integers, Sequences, FiniteSets, SequencesExt
Backups == {"__spec_class_init__", "__spec_class_repr__", "__spec_class_eq__"}
Names(seq)  == {seq[j] : j \in 1..Len(seq)}
NamesN(seq) == {seq[j].n : j \in 1..Len(seq)}
IsPrivate(D, n) == n \in DOMAIN D.priv /\ D.priv[n]            \* leading underscore (classified by the harness: TLC has no string slicing)
InheritAnnots(D) == (D.opts.attrs = <<>> /\ D.opts.typed = <<>>) \/ D.opts.useskip
\* managed attributes this class becomes the owner of, with their collection family
\* (the overflow attribute named by init_overflow_attr is a managed Dict[str, Any] attribute like any other)
Overflow(D) == IF "overflow" \in DOMAIN D.opts /\ D.opts.overflow # "" THEN {[n |-> D.opts.overflow, fam |-> "map"]} ELSE {}
\* a name selected through attrs= keeps the type it is annotated with on the class (Any, i.e. no collection family, only when it has none)
AnnotFam(D, n) == IF \E a \in ToSet(D.annots) : a.n = n THEN (CHOOSE a \in ToSet(D.annots) : a.n = n).fam ELSE "none"
Own(D) == (IF InheritAnnots(D) THEN {a \in ToSet(D.annots) : ~IsPrivate(D, a.n) /\ a.n \notin Names(D.opts.skip)} ELSE {})
       \cup {[n |-> n, fam |-> AnnotFam(D, n)] : n \in Names(D.opts.attrs) \ NamesN(D.opts.typed)} \cup ToSet(D.opts.typed) \cup Overflow(D)
OwnNames(D) == {a.n : a \in Own(D)}
AllNames(D) == OwnNames(D) \cup NamesN(D.inh)
IllegalPrivate(D) == \E n \in Names(D.opts.attrs) \cup NamesN(D.opts.typed) \cup {a.n : a \in Overflow(D)} : IsPrivate(D, n)
\* singular-name rule: the singular form, unless it is another managed attribute or the singular form of another collection:
\* then <attr>_item (for every attribute involved), unless that is an attribute too: error
Colls(D) == {a \in Own(D) \cup ToSet(D.inh) : a.fam # "none"}
Taken(D, n) == D.sing[n] \in AllNames(D) \/ \E b \in Colls(D) : b.n # n /\ D.sing[b.n] = D.sing[n]
ItemName(D, n) == IF ~Taken(D, n) THEN D.sing[n] ELSE n \o "_item"
Collision(D, n) == Taken(D, n) /\ (n \o "_item") \in AllNames(D)
\* ... and the names finally chosen for two collections must differ (a fallback may run into another collection's singular form)
RaisesRuntimeError(D) == (\E a \in Colls(D) : Collision(D, a.n)) \/ (\E a, b \in Colls(D) : a.n # b.n /\ ItemName(D, a.n) = ItemName(D, b.n))
Scalar(D, n) == {"with_" \o n, "update_" \o n, "transform_" \o n, "reset_" \o n}
Elem(D, n)   == {"with_" \o ItemName(D, n), "update_" \o ItemName(D, n), "transform_" \o ItemName(D, n), "without_" \o ItemName(D, n)}
\* an inherited collection whose singular now names a new attribute gets its element helpers again under the fallback name
Renamed(D) == {a \in ToSet(D.inh) : a.fam # "none" /\ (D.sing[a.n] \in OwnNames(D) \/ \E b \in Own(D) : b.fam # "none" /\ b.n # a.n /\ D.sing[b.n] = D.sing[a.n])}
Helpers(D) == UNION {Scalar(D, a.n) : a \in Own(D)} \cup UNION {Elem(D, a.n) : a \in {b \in Own(D) : b.fam # "none"}} \cup UNION {Elem(D, a.n) : a \in Renamed(D)}
           \cup {"update", "transform", "reset"}
Dunders(D) == (IF D.opts.init THEN {"__init__"} ELSE {}) \cup (IF D.opts.repr THEN {"__repr__"} ELSE {}) \cup (IF D.opts.eq THEN {"__eq__"} ELSE {})
           \cup {"__getattr__", "__setattr__", "__delattr__", "__deepcopy__"}
Generated(D) == Helpers(D) \cup Backups \cup Dunders(D)

=============================================================================
