-------------------------------- MODULE PyVal --------------------------------
(* Value model of Python data shared by the specification modules (DESIGN.md 2.2).
   Every value is a record with a tag field `t` and tag-specific field names, so TLC never has to
   compare an integer with a string.  Floats are modelled in halves (h = 2 * value). *)
EXTENDS Integers, Sequences, FiniteSets

PInt(n)   == [t |-> "int", i |-> n]
PBool(b)  == [t |-> "bool", b |-> b]
PFlt(h)   == [t |-> "float", h |-> h]
PStr(s)   == [t |-> "str", s |-> s]
PByt(s)   == [t |-> "bytes", s |-> s]
PNone     == [t |-> "none"]
PMissing  == [t |-> "missing"]
PLst(e)   == [t |-> "list", e |-> e]
PTup(e)   == [t |-> "tuple", e |-> e]
PSet(e)   == [t |-> "set", e |-> e]                 \* e : a duplicate-free SEQUENCE of (hashable) values; order is irrelevant
                                                    \* (JSON has no sets and TLC cannot order strings: compare with EqV / PyEq, never with =)
PDct(e)   == [t |-> "dict", e |-> e]                \* e : sequence of [k |-> key, v |-> value], insertion ordered
PObj(c, a) == [t |-> "obj", c |-> c, a |-> a]       \* instance of class named c with attribute record a
PCls(n)   == [t |-> "cls", n |-> n]                 \* a class object
PFn(n)    == [t |-> "fn", n |-> n]                  \* a named callback of the pool

IsNum(v)  == v.t \in {"int", "bool", "float"}
Halves(v) == CASE v.t = "int" -> 2 * v.i [] v.t = "bool" -> (IF v.b THEN 2 ELSE 0) [] v.t = "float" -> v.h
IsIntLike(v) == v.t \in {"int", "bool"}              \* isinstance(v, int)
IntVal(v) == IF v.t = "int" THEN v.i ELSE IF v.b THEN 1 ELSE 0

RECURSIVE PyEq(_, _)
PyEq(v, w) ==                                        \* Python ==
  IF IsNum(v) /\ IsNum(w) THEN Halves(v) = Halves(w)
  ELSE IF v.t # w.t THEN FALSE
  ELSE CASE v.t \in {"list", "tuple"} -> Len(v.e) = Len(w.e) /\ \A j \in 1..Len(v.e) : PyEq(v.e[j], w.e[j])
         [] v.t = "dict" -> Len(v.e) = Len(w.e) /\ \A j \in 1..Len(v.e) : \E m \in 1..Len(w.e) : PyEq(v.e[j].k, w.e[m].k) /\ PyEq(v.e[j].v, w.e[m].v)
         [] v.t = "set"  -> Len(v.e) = Len(w.e) /\ \A j \in 1..Len(v.e) : \E m \in 1..Len(w.e) : PyEq(v.e[j], w.e[m])
         \* spec-class instances: same class and equal attributes (missing equals only missing); plain objects: identity, i.e. the same record
         [] v.t = "obj" -> v.c = w.c /\ DOMAIN v.a = DOMAIN w.a /\ (\A f \in DOMAIN v.a : PyEq(v.a[f], w.a[f])) /\ (DOMAIN v.a = {} => v = w)
         [] v.t = "klist" -> Len(v.e) = Len(w.e) /\ \A j \in 1..Len(v.e) : PyEq(v.e[j], w.e[j])          \* a list: order matters
         [] v.t = "kset"  -> Len(v.e) = Len(w.e) /\ \A j \in 1..Len(v.e) : \E m \in 1..Len(w.e) : PyEq(v.e[j], w.e[m])      \* a set
         [] OTHER -> v = w

Truthy(v) ==
  CASE v.t = "int" -> v.i # 0 [] v.t = "bool" -> v.b [] v.t = "float" -> v.h # 0
    [] v.t \in {"str", "bytes"} -> v.s # "" [] v.t \in {"none", "missing"} -> FALSE
    [] v.t \in {"list", "tuple", "dict", "set"} -> v.e # <<>>
    [] OTHER -> TRUE

\* structural equality that is strict on tags (1, True and 1.0 differ) but ignores the order of set and dict payloads
RECURSIVE EqV(_, _)
EqV(v, w) ==
  IF v.t # w.t THEN FALSE
  ELSE CASE v.t \in {"list", "tuple", "klist"} -> Len(v.e) = Len(w.e) /\ \A j \in 1..Len(v.e) : EqV(v.e[j], w.e[j])
         \* (a KeyedSet's iteration order is not part of its value: re-preparing one re-inserts its items)
         [] v.t \in {"set", "kset"} -> Len(v.e) = Len(w.e) /\ \A j \in 1..Len(v.e) : \E m \in 1..Len(w.e) : EqV(v.e[j], w.e[m])
         [] v.t = "dict" -> Len(v.e) = Len(w.e) /\ \A j \in 1..Len(v.e) : \E m \in 1..Len(w.e) : EqV(v.e[j].k, w.e[m].k) /\ EqV(v.e[j].v, w.e[m].v)
         [] v.t = "obj"  -> v.c = w.c /\ DOMAIN v.a = DOMAIN w.a /\ \A f \in DOMAIN v.a : EqV(v.a[f], w.a[f])
                            /\ (("x" \in DOMAIN v /\ "x" \in DOMAIN w) => DOMAIN v.x = DOMAIN w.x /\ \A g \in DOMAIN v.x : EqV(v.x[g], w.x[g]))
         [] OTHER -> v = w
=============================================================================
