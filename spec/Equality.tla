------------------------------ MODULE Equality ------------------------------
(* Equality and repr of spec-class instances (property C10).
   ET[c] = [attrs : Seq(name), compare, repr : [name -> BOOLEAN], parents : set of class names (proper ancestors)]
   instance x = [c |-> class, a |-> [name -> value]];  values are PyVal plus
     [t |-> "bm", f |-> name]  a method bound to the instance itself      [t |-> "fn", n |-> name]  a plain function
     [t |-> "cls", n |-> name] a class     [t |-> "mod", n |-> name] a module     PMissing = attribute not set *)
EXTENDS PyVal, SequencesExt, TLC, Json, IOUtils
CONSTANTS ET, Pool, Dev
VARIABLES x, y, z
vars == <<x, y, z>>

Names(seq) == {seq[j] : j \in 1..Len(seq)}
IsInst(c, d) == c = d \/ \E j \in 1..Len(ET[c].parents) : ET[c].parents[j] = d      \* isinstance(instance of c, d)
CompareAttrs(c) == SelectSeq(ET[c].attrs, LAMBDA n : ET[c].compare[n])
ReprAttrs(c)    == SelectSeq(ET[c].attrs, LAMBDA n : ET[c].repr[n])
\* attribute-level equality: bound methods by their function, missing only equals missing, everything else Python ==
AttrEq(v, w) == IF v.t = "bm" /\ w.t = "bm" THEN v.f = w.f
                ELSE IF v.t \in {"bm", "fn", "cls", "mod", "missing"} \/ w.t \in {"bm", "fn", "cls", "mod", "missing"} THEN v = w
                ELSE PyEq(v, w)
\* the generated __eq__ : every compare-enabled attribute of the left operand's class takes part (no early exit)
RECURSIVE EqFrom(_, _, _, _)
EqFrom(as, a, b, i) ==
  IF i > Len(as) THEN TRUE
  ELSE LET v == a.a[as[i]] w == IF as[i] \in DOMAIN b.a THEN b.a[as[i]] ELSE PMissing IN
       IF "eq_returns_at_first_method" \in Dev /\ v.t = "bm" /\ w.t = "bm" THEN v.f = w.f         \* pre-fix: answer decided by the first method pair
       ELSE AttrEq(v, w) /\ EqFrom(as, a, b, i + 1)
EqMethod(a, b) == IsInst(b.c, a.c) /\ EqFrom(CompareAttrs(a.c), a, b, 1)
\* Python's dispatch: the reflected method of a proper subclass on the right is tried first (and answers, never NotImplemented)
EqOp(a, b) == IF a.c # b.c /\ IsInst(b.c, a.c) THEN EqMethod(b, a) ELSE EqMethod(a, b)

Init == x \in Pool /\ y \in Pool /\ z \in Pool
Next == UNCHANGED vars
Spec == Init /\ [][Next]_vars
Reflexive  == EqOp(x, x)
Symmetric  == EqOp(x, y) = EqOp(y, x)
Transitive == EqOp(x, y) /\ EqOp(y, z) => EqOp(x, z)
\* exactly: compatible classes and all compare-enabled attributes equal (compare=False attributes never matter)
Exact == EqOp(x, y) = (x.c = y.c /\ \A n \in Names(CompareAttrs(x.c)) : AttrEq(x.a[n], y.a[n]))
=============================================================================
