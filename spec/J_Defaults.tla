----------------------------- MODULE J_Defaults -----------------------------
(* Judge for C08: histories mixing construction (with retained argument objects), in-place mutation of nested
   values, reset_<attr>, reset, del and further constructions.  Every event lists all ROOTS (class-level default
   objects, retained constructor arguments, live instances) with value projection and identity tokens, before and
   after the operation. *)
EXTENDS DefaultsOps, TLC, Json, IOUtils, SequencesExt, FiniteSets
VARIABLE dummy
Events == ndJsonDeserialize(IOEnv.VERIF_EVENTS)
N == Len(Events)
DT == JsonDeserialize(IOEnv.VERIF_SCN)

Idx(rs) == 1..Len(rs)
Failing(e) ==
  LET pre == e.pre post == e.post IN
     \* class defaults, retained constructor arguments and peers are never changed by anything done to another instance
     (IF \E j \in Idx(post) : post[j].kind = "dflt" /\ \E m \in Idx(pre) : pre[m].name = post[j].name /\ ~(EqV(pre[m].v, post[j].v) /\ pre[m].tok = post[j].tok)
      THEN {"c08_class_default_changed"} ELSE {})
  \cup (IF \E j \in Idx(post) : post[j].kind = "arg" /\ \E m \in Idx(pre) : pre[m].name = post[j].name /\ ~(EqV(pre[m].v, post[j].v) /\ pre[m].tok = post[j].tok)
        THEN {"c08_constructor_argument_changed"} ELSE {})
  \cup (IF \E j \in Idx(post) : post[j].kind = "inst" /\ post[j].name # e.target /\ \E m \in Idx(pre) : pre[m].name = post[j].name /\ ~(EqV(pre[m].v, post[j].v) /\ pre[m].tok = post[j].tok)
        THEN {"c08_peer_changed"} ELSE {})
  \* no two roots reach a common mutable object
  \* (a pair that was already sharing before this operation is reported at the operation that created the sharing)
  \cup (IF \E j, m \in Idx(post) : j < m /\ ToSet(post[j].tok) \cap ToSet(post[m].tok) # {}
             /\ ~(\E p, q \in Idx(pre) : pre[p].name = post[j].name /\ pre[q].name = post[m].name /\ ToSet(pre[p].tok) \cap ToSet(pre[q].tok) # {})
        THEN {"c08_shared_mutable_state"} ELSE {})
  \* reset / del yields the nearest default along the MRO (missing when there is none), as a fresh object
  \cup (IF e.op \in {"reset_attr", "delattr", "reset"} /\ e.res = "ok" THEN
          LET t == CHOOSE j \in Idx(post) : post[j].name = e.target IN
          IF \E a \in ToSet(e.attrs) : ~EqV(post[t].v.a[a], NearestDefault(DT, post[t].v.c, a)) THEN {"c08_reset_is_not_default"} ELSE {}
        ELSE {})
  \cup (IF e.op = "construct" /\ e.res = "ok" THEN
          LET t == CHOOSE j \in Idx(post) : post[j].name = e.target IN
          IF \E a \in DOMAIN post[t].v.a : a \notin ToSet(e.given) /\ ~EqV(post[t].v.a[a], NearestDefault(DT, post[t].v.c, a)) THEN {"c08_constructed_default_wrong"} ELSE {}
        ELSE {})
  \* (del of an attribute that is not set raises AttributeError, as for any Python object; pokes may hit unset attributes)
  \cup (IF e.res # "ok" /\ e.op # "poke" /\ ~(e.op = "delattr" /\ e.res = "AttributeError") THEN {"c08_unexpected_exception"} ELSE {})
F == [i \in 1..N |-> Failing(Events[i])]
BadIdx == {i \in 1..N : F[i] # {}}
Bad == UNION {{[i |-> i, c |-> c, d |-> ""] : c \in F[i]} : i \in BadIdx}
Cnt(P(_)) == Cardinality({i \in 1..N : P(Events[i])})
Ante == [pokes |-> Cnt(LAMBDA e : e.op = "poke"), resets |-> Cnt(LAMBDA e : e.op \in {"reset_attr", "delattr", "reset"}),
         constructs |-> Cnt(LAMBDA e : e.op = "construct"), with_args |-> Cnt(LAMBDA e : e.op = "construct" /\ Len(e.given) > 0)]
ASSUME JsonSerialize(IOEnv.VERIF_OUT, <<[bad |-> SetToSeq(Bad), n |-> N, ante |-> Ante]>>)
Init == dummy = 0
Next == UNCHANGED dummy
=============================================================================
