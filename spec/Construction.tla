----------------------------- MODULE Construction -----------------------------
(* Enumerator / model checker for C09: every class of every hierarchy x every keyword set of the pool; the declarative
   rule (Expected) and the owner-directed walk (Construct) must agree. *)
EXTENDS SpecClassMeta, TLC, Json, IOUtils
CONSTANTS HS,        \* [hierarchy name |-> H]
          Targets,   \* [hierarchy name |-> Seq(class to instantiate)]
          Dev
VARIABLES h, c, kws
vars == <<h, c, kws>>
Good == PInt(4)
Bad  == PStr("s")
\* keyword sets: each accepted or init=False attribute absent / well-typed / ill-typed, optionally one unknown keyword
KwChoices(H, cls) == LET names == SetToSeq(Managed(H, cls) \ {OverflowOf(H, cls)}) IN
  {<<>>} \cup {<<[k |-> n, v |-> v]>> : n \in Names(names), v \in {Good, Bad}}
         \cup {<<[k |-> pr[1], v |-> Good], [k |-> pr[2], v |-> w]>> : pr \in {q \in Names(names) \X Names(names) : q[1] # q[2]}, w \in {Good, Bad}}
         \cup {<<[k |-> "zz", v |-> Good]>>} \cup {<<[k |-> n, v |-> Good], [k |-> "zz", v |-> PInt(9)]>> : n \in Names(names)}
         \cup {[j \in 1..Len(names) |-> [k |-> names[j], v |-> Good]]}
Init == /\ h \in DOMAIN HS /\ c \in Names(Targets[h]) /\ kws \in KwChoices(HS[h], c)
Next == UNCHANGED vars
Spec == Init /\ [][Next]_vars
InvAgree == Agree(Dev, HS[h], c, kws)
\* __post_init__ runs exactly once on every successful generated construction of a class that defines or inherits it
InvPost == LET e == Expected(HS[h], c, kws) IN e.res = "ok" /\ HasPost(HS[h], c) /\ ~HS[h][MetaOwner(HS[h], c)].hand => e.posts = 1
Cases == UNION {UNION {{[h |-> hh, c |-> cc, kws |-> k] : k \in KwChoices(HS[hh], cc)} : cc \in Names(Targets[hh])} : hh \in DOMAIN HS}
ASSUME IF "VERIF_ACTS" \in DOMAIN IOEnv THEN JsonSerialize(IOEnv.VERIF_ACTS, SetToSeq(Cases)) ELSE TRUE
=============================================================================
