---------------------------- MODULE J_Signature ----------------------------
(* Judge for C17: every call against a generated method (spy in place of the implementation) vs Binds on the ADVERTISED signature. *)
EXTENDS SigOps, TLC, Json, IOUtils
VARIABLE dummy
Events == ndJsonDeserialize(IOEnv.VERIF_EVENTS)
N == Len(Events)
ST == JsonDeserialize(IOEnv.VERIF_SCN)
Failing(e) ==
  IF e.kind = "sig" THEN
       LET adv == {e.sig[j].n : j \in {i \in 1..Len(e.sig) : e.sig[i].virtual}} real == {e.sig[j].n : j \in {i \in 1..Len(e.sig) : ~e.sig[i].virtual}} IN
          (IF {a \in adv : \E j \in 1..Len(e.sig) : e.sig[j].n = a /\ e.sig[j].kind = "kwonly"} # NestedKw(ST, e.m, real) THEN {"nested_keywords_not_one_to_one"} ELSE {})
       \cup (IF (\E j \in 1..Len(e.sig) : e.sig[j].kind = "varkw") # WantsVarKw(ST, e.m) THEN {"overflow_keywords_advertised_wrongly"} ELSE {})
  ELSE IF e.kind = "deliver" THEN
       LET want(k) == Destination(ST, e.m, k) IN
          (IF \E j \in 1..Len(e.kws) : want(e.kws[j].n) # {"rejected"} /\ (e.res # "ok" \/ \A x \in 1..Len(e.kws[j].where) : e.kws[j].where[x] \notin want(e.kws[j].n)) THEN {"advertised_keyword_not_delivered"} ELSE {})
       \cup (IF e.res = "ok" /\ \E j \in 1..Len(e.kws) : want(e.kws[j].n) = {"rejected"} THEN {"unadvertised_call_accepted"} ELSE {})
  ELSE LET b == Binds(e.sig, e.call) IN
          (IF b /\ e.res # "accept" THEN {"advertised_call_rejected"} ELSE {})
       \cup (IF ~b /\ e.res = "accept" THEN {"unadvertised_call_accepted"} ELSE {})
       \cup (IF ~b /\ e.res \notin {"accept", "TypeError"} THEN {"rejection_is_not_TypeError"} ELSE {})
       \cup (IF e.res # "accept" /\ e.spy_called THEN {"rejected_after_reaching_behaviour"} ELSE {})
       \cup (IF e.res = "accept" /\ ~e.spy_ok THEN {"values_or_defaults_not_as_advertised"} ELSE {})
F == [i \in 1..N |-> Failing(Events[i])]
BadIdx == {i \in 1..N : F[i] # {}}
Bad == UNION {{[i |-> i, c |-> c, d |-> ""] : c \in F[i]} : i \in BadIdx}
Ante == [sigs |-> Cardinality({i \in 1..N : Events[i].kind = "sig"}), accepted |-> Cardinality({i \in 1..N : Events[i].kind = "call" /\ Events[i].res = "accept"}),
         rejected |-> Cardinality({i \in 1..N : Events[i].kind = "call" /\ Events[i].res = "TypeError"}),
         delivered |-> Cardinality({i \in 1..N : Events[i].kind = "deliver" /\ Events[i].res = "ok"}),
         overflowed |-> Cardinality({i \in 1..N : Events[i].kind = "deliver" /\ \E j \in 1..Len(Events[i].kws) : \E x \in 1..Len(Events[i].kws[j].where) : Events[i].kws[j].where[x] # "attr"}),
         nested |-> Cardinality({i \in 1..N : Events[i].kind = "sig" /\ NestedClass(ST, Events[i].m) # ""})]
ASSUME JsonSerialize(IOEnv.VERIF_OUT, <<[bad |-> SetToSeq(Bad), n |-> N, ante |-> Ante]>>)
Init == dummy = 0
Next == UNCHANGED dummy
=============================================================================
