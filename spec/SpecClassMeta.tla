---------------------------- MODULE SpecClassMeta ----------------------------
(* Class-hierarchy semantics of construction (property C09).

   H[c] = [mro   : Seq(class)                  the class's MRO restricted to the hierarchy (taken from the real classes: an input)
           spec  : BOOLEAN                     decorated with @spec_class
           decl  : Seq(attr)                   attributes annotated in c's own body (c becomes their owner)
           body  : [attr -> [has, v, init]]    what c's body assigns: a default (has) for a declared or merely re-defaulted attribute; init flag
           key, overflow : [set : BOOLEAN, name : STRING]    decorator arguments (inherited when not set)
           hand  : BOOLEAN, params : Seq([n, hasd, d])       hand-written __init__ of the documented shape  self.<p> = <p> + 1
           post  : BOOLEAN]                    defines __post_init__
   kws = <<[k |-> name, v |-> value]>> the keywords of the call (the key may also be passed positionally: same thing).

   Two formulations, model-checked against each other over every hierarchy and keyword set:
     Expected   declarative: keyword value, else nearest default along the MRO, else missing; owner's constructor applied
     Construct  operational: the owner-directed walk over the reversed MRO that the generated __init__ performs *)
EXTENDS PyVal, SequencesExt, FiniteSets

IsMissing(v) == v.t = "missing"
Names(seq)   == {seq[j] : j \in 1..Len(seq)}
KwNames(kw)  == {kw[j].k : j \in 1..Len(kw)}
KwGet(kw, n) == kw[CHOOSE j \in 1..Len(kw) : kw[j].k = n].v
Plus1(v)     == IF IsIntLike(v) THEN [res |-> "ok", v |-> PInt(IntVal(v) + 1)] ELSE [res |-> "TypeError", v |-> v]
IsInt(v)     == IsIntLike(v)

SpecMRO(H, c)   == SelectSeq(H[c].mro, LAMBDA k : H[k].spec)
MetaOwner(H, c) == SpecMRO(H, c)[1]
\* managed attributes of c: everything declared by a spec class on the MRO
Managed(H, c)   == UNION {Names(H[k].decl) : k \in Names(SpecMRO(H, c))}
Owner(H, c, a)  == LET ks == SelectSeq(SpecMRO(H, c), LAMBDA k : a \in Names(H[k].decl)) IN ks[1]       \* nearest declaring spec class
InitFlag(H, c, a) == H[Owner(H, c, a)].body[a].init
RECURSIVE NearestFrom(_, _, _, _)
NearestFrom(H, mro, a, i) == IF i > Len(mro) THEN PMissing
                             ELSE IF a \in DOMAIN H[mro[i]].body /\ H[mro[i]].body[a].has THEN H[mro[i]].body[a].v
                             ELSE NearestFrom(H, mro, a, i + 1)
Nearest(H, c, a) == NearestFrom(H, H[c].mro, a, 1)                 \* nearest default along the MRO (plain subclasses included)
FirstSet(H, c, f) == LET ks == SelectSeq(SpecMRO(H, c), LAMBDA k : H[k][f].set) IN IF ks = <<>> THEN "" ELSE H[ks[1]][f].name
\* the key of a class: its own decorator argument, else the (resolved) key of the FIRST spec class after it in its MRO -- a key declared by a
\* second spec parent makes that parent's key attribute an ordinary optional keyword of the subclass
RECURSIVE KeyFrom(_, _, _)
KeyFrom(H, ms, i) == IF i > Len(ms) THEN "" ELSE IF H[ms[i]].key.set THEN H[ms[i]].key.name
                     ELSE LET rest == SpecMRO(H, ms[i]) IN IF Len(rest) < 2 THEN "" ELSE KeyFrom(H, rest, 2)
KeyOf(H, c)      == KeyFrom(H, SpecMRO(H, c), 1)
OverflowOf(H, c) == FirstSet(H, c, "overflow")
HasPost(H, c)    == \E j \in 1..Len(H[c].mro) : H[H[c].mro[j]].post
\* the hook that runs is the one ordinary attribute lookup finds on the instance: the nearest class of the MRO defining it (plain subclasses included)
PostOwner(H, c)  == H[c].mro[CHOOSE j \in 1..Len(H[c].mro) : H[H[c].mro[j]].post /\ \A m \in 1..(j - 1) : ~H[H[c].mro[m]].post]
InitAttrs(H, c)  == {a \in Managed(H, c) : InitFlag(H, c, a)} \ {OverflowOf(H, c)}
ParamNames(H, k) == {H[k].params[j].n : j \in 1..Len(H[k].params)}
Param(H, k, n)   == H[k].params[CHOOSE j \in 1..Len(H[k].params) : H[k].params[j].n = n]

Result(res, attrs, posts) == [res |-> res, attrs |-> attrs, posts |-> posts]
Blank(H, c) == [a \in Managed(H, c) |-> PMissing]

\* ------------------------------------------------------------------ declarative
\* value an attribute gets, given what reaches its owner's constructor
ValueFor(H, c, a, kws) ==
  LET o == Owner(H, c, a) M == MetaOwner(H, c)
      given == a \in KwNames(kws)
      dflt == Nearest(H, c, a)
  IN IF ~InitFlag(H, c, a) THEN [res |-> "ok", v |-> dflt]                               \* never set by the constructor: the class-level default shows through
     ELSE IF H[o].hand /\ a \in ParamNames(H, o) THEN
          LET p == Param(H, o, a)
              vin == IF given THEN KwGet(kws, a)
                     ELSE IF o # M /\ ~IsMissing(dflt) THEN dflt                           \* subclass defaults are handed to a parent's own constructor
                     ELSE IF p.hasd THEN p.d ELSE PMissing
          IN IF IsMissing(vin) THEN [res |-> "TypeError", v |-> PMissing] ELSE Plus1(vin)
     ELSE LET vin == IF given THEN KwGet(kws, a) ELSE dflt
          IN IF IsMissing(vin) THEN [res |-> "ok", v |-> PMissing] ELSE IF IsInt(vin) THEN [res |-> "ok", v |-> vin] ELSE [res |-> "TypeError", v |-> vin]

Expected(H, c, kws) ==
  LET M == MetaOwner(H, c) key == KeyOf(H, c) of == OverflowOf(H, c)
      accepted == IF H[M].hand THEN ParamNames(H, M) ELSE InitAttrs(H, c)
      unknown == KwNames(kws) \ accepted
      vals == [a \in Managed(H, c) |-> ValueFor(H, c, a, kws)]
      keyMissing == ~H[M].hand /\ key # "" /\ key \in Managed(H, c) /\ key \notin KwNames(kws) /\ IsMissing(Nearest(H, c, key))
  IN IF unknown # {} /\ (of = "" \/ H[M].hand) THEN Result("TypeError", Blank(H, c), 0)
     ELSE IF keyMissing THEN Result("TypeError", Blank(H, c), 0)
     ELSE IF \E a \in Managed(H, c) \ {of} : vals[a].res # "ok" THEN Result("TypeError", Blank(H, c), 0)
     ELSE Result("ok",
                 [a \in Managed(H, c) |-> IF a = of /\ of # "" THEN PDct([j \in 1..Len(SelectSeq(kws, LAMBDA e : e.k \in unknown)) |->
                                                                          [k |-> PStr(SelectSeq(kws, LAMBDA e : e.k \in unknown)[j].k), v |-> SelectSeq(kws, LAMBDA e : e.k \in unknown)[j].v]])
                                          ELSE vals[a].v],
                 IF HasPost(H, c) /\ ~H[M].hand THEN 1 ELSE 0)

\* ------------------------------------------------------------------ operational (the generated __init__)
\* state threaded through the walk: st = [attrs, res, posts]
SetAttr(st, a, v) == IF st.res # "ok" THEN st ELSE IF IsInt(v) THEN [st EXCEPT !.attrs[a] = v] ELSE [st EXCEPT !.res = "TypeError"]

\* the hand-written constructor of class k called with keyword record kw (a function name -> value)
HandInit(H, k, st, kw) ==
  IF DOMAIN kw \subseteq ParamNames(H, k) THEN
       LET RECURSIVE Go(_, _)
           Go(s, j) == IF j > Len(H[k].params) \/ s.res # "ok" THEN s
                       ELSE LET p == H[k].params[j]
                                vin == IF p.n \in DOMAIN kw THEN kw[p.n] ELSE IF p.hasd THEN p.d ELSE PMissing
                                r == Plus1(vin)
                            IN IF IsMissing(vin) \/ r.res # "ok" THEN [s EXCEPT !.res = "TypeError"] ELSE Go(SetAttr(s, p.n, r.v), j + 1)
       IN Go(st, 1)
  ELSE [st EXCEPT !.res = "TypeError"]

\* own attributes of spec class k, for an instance of class c, from keyword record kw
OwnInit(H, c, k, st, kw) ==
  LET own == SelectSeq(SetToSeq({a \in Managed(H, c) : Owner(H, c, a) = k /\ InitFlag(H, c, a) /\ a # OverflowOf(H, c)}), LAMBDA a : TRUE)
      RECURSIVE Go(_, _)
      Go(s, j) == IF j > Len(own) THEN s
                  ELSE LET a == own[j] v == IF a \in DOMAIN kw /\ ~IsMissing(kw[a]) THEN kw[a] ELSE Nearest(H, c, a)
                       IN Go(IF IsMissing(v) THEN s ELSE SetAttr(s, a, v), j + 1)
  IN Go(st, 1)

\* Dev "plain_between_reinitialises": a plain class between two spec classes makes the walk call its inherited generated
\* constructor a second time without keywords (what the code did before the fix)
Construct(Dev, H, c, kws) ==
  LET M == MetaOwner(H, c) of == OverflowOf(H, c) key == KeyOf(H, c)
      kw0 == [n \in KwNames(kws) |-> KwGet(kws, n)]
      st0 == [attrs |-> Blank(H, c), res |-> "ok", posts |-> 0]
      fin(s) == [s EXCEPT !.attrs = [a \in Managed(H, c) |-> IF ~InitFlag(H, c, a) THEN Nearest(H, c, a) ELSE s.attrs[a]]]
  IN
  IF H[M].hand THEN LET s == HandInit(H, M, st0, kw0) IN Result(s.res, IF s.res = "ok" THEN fin(s).attrs ELSE Blank(H, c), 0)
  ELSE IF (KwNames(kws) \ InitAttrs(H, c)) # {} /\ of = "" THEN Result("TypeError", Blank(H, c), 0)                \* wrapper: unexpected keyword
  ELSE IF key # "" /\ key \in Managed(H, c) /\ key \notin KwNames(kws) /\ IsMissing(Nearest(H, c, key)) THEN Result("TypeError", Blank(H, c), 0)
  ELSE
    LET parents == Reverse(Tail(H[M].mro))                             \* base-most first
        RECURSIVE Walk(_, _)
        Walk(s, j) ==
          IF j > Len(parents) \/ s.res # "ok" THEN s
          ELSE LET p == parents[j]
                   owned == {a \in Managed(H, c) : Owner(H, c, a) = p /\ InitFlag(H, c, a)}
                   pk == [a \in {b \in owned : b \in DOMAIN kw0 \/ ~IsMissing(Nearest(H, c, b))} |-> IF a \in DOMAIN kw0 THEN kw0[a] ELSE Nearest(H, c, a)]
               IN IF H[p].spec THEN Walk(IF H[p].hand THEN HandInit(H, p, s, pk) ELSE OwnInit(H, c, p, s, pk), j + 1)
                  ELSE IF "plain_between_reinitialises" \in Dev /\ SpecMRO(H, p) # <<>> /\ ~H[SpecMRO(H, p)[1]].hand
                       THEN Walk(OwnInit(H, c, SpecMRO(H, p)[1], s, <<>>), j + 1)                    \* inherited generated __init__, no keywords
                  ELSE Walk(s, j + 1)
        s1 == Walk(st0, 1)
        s2 == OwnInit(H, c, M, s1, kw0)
        unknown == SelectSeq(kws, LAMBDA e : e.k \notin InitAttrs(H, c))
        s3 == IF of # "" /\ s2.res = "ok" THEN [s2 EXCEPT !.attrs[of] = PDct([j \in 1..Len(unknown) |-> [k |-> PStr(unknown[j].k), v |-> unknown[j].v]])] ELSE s2
    IN Result(s3.res, IF s3.res = "ok" THEN fin(s3).attrs ELSE Blank(H, c), IF s3.res = "ok" /\ HasPost(H, c) THEN 1 ELSE 0)

Agree(Dev, H, c, kws) == LET e == Expected(H, c, kws) o == Construct(Dev, H, c, kws) IN e.res = o.res /\ (e.res = "ok" => e.attrs = o.attrs /\ e.posts = o.posts)
=============================================================================
