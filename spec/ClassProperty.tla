---------------------------- MODULE ClassProperty ----------------------------
(* classproperty state machine over Base <- Mid <- Leaf; 32 option combinations; C12. *)
EXTENDS SpecPropertyOps, TLC, Json, IOUtils, SequencesExt
VARIABLES cfg, st, last
vars == <<cfg, st, last>>
View == <<cfg, st>>
Cfgs == [cache : BOOLEAN, per : BOOLEAN, ov : BOOLEAN, fset : BOOLEAN, fdel : BOOLEAN]
Cls  == {"Base", "Mid", "Leaf"}
Acts == {[op |-> "read", c |-> c, via |-> v] : c \in Cls, v \in {"class", "instance"}}
        \cup {[op |-> "assign", c |-> c, v |-> I(5)] : c \in Cls} \cup {[op |-> "assign", c |-> "Mid", v |-> PN]} \cup {[op |-> "delete", c |-> c] : c \in Cls}
        \cup {[op |-> "under", u |-> u] : u \in 0..2}
Init == cfg \in Cfgs /\ st = CPInit /\ last = [a |-> [op |-> "init"], res |-> "ok", val |-> N]
Next == \E a \in Acts : LET r == CPStep(cfg, st, a) IN st' = r.st /\ cfg' = cfg /\ last' = [a |-> a, res |-> r.res, val |-> r.val]
Spec == Init /\ [][Next]_vars
\* per class (shared) or per subclass: a class's slot is only ever written through that class's key
PropIsolation == [][\A k \in CPKeys : st'.c[k] # st.c[k] => last'.a.op \in {"read", "assign", "delete"} /\ k = CKey(cfg, last'.a.c)]_vars
PropNoCache == [][~cfg.cache /\ ~cfg.ov => st'.c = st.c]_vars
PropRead == [][last'.a.op = "read" => last'.res = "ok" /\ last'.val = (IF st.c[CKey(cfg, last'.a.c)] # N THEN st.c[CKey(cfg, last'.a.c)] ELSE CGetter(last'.a.c, st.under))]_vars
ASSUME IF "VERIF_ACTS" \in DOMAIN IOEnv THEN JsonSerialize(IOEnv.VERIF_ACTS, SetToSeq(Acts)) ELSE TRUE
=============================================================================
