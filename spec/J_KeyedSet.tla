---------------------------- MODULE J_KeyedSet ----------------------------
(* Judge for C14: clauses of the property evaluated on events recorded from the real KeyedSet. *)
EXTENDS KeyedSetOps, TLC, Json, IOUtils, SequencesExt
VARIABLE dummy

Events == ndJsonDeserialize(IOEnv.VERIF_EVENTS)
N == Len(Events)

WellFormed(l) == \A j \in 1..Len(l) : l[j].bad = "no"
IndexCoherent(p) ==
  /\ p.len = Len(p.s)
  /\ ToSet(p.keys) = KeysOf(p.s) /\ Len(p.keys) = Len(p.s)
  /\ {<<p.items[j].k, p.items[j].v>> : j \in 1..Len(p.items)} = {<<p.s[j].k, p.s[j]>> : j \in 1..Len(p.s)}
SameSet(x, y) == ItemsOf(x) = ItemsOf(y) /\ Len(x) = Len(y)

Simple  == {"add", "discard", "remove", "clear", "getitem", "get", "contains"}
BinOps  == {"or", "and", "sub", "xor"}
CmpOps  == {"le", "lt", "ge", "gt", "eq", "isdisjoint"}
IOps    == {"ior", "iand", "isub", "ixor"}
ReadOps == {"getitem", "get", "contains"} \cup BinOps \cup CmpOps

Failing(e) ==
  LET pre == e.pre.s post == e.post.s a == e.a cfg == e.cfg IN
  IF ~WellFormed(post) THEN {"wellformed"} ELSE
     (IF HasDup(post) THEN {"one_item_per_key"} ELSE {})
  \cup (IF ~HasDup(post) /\ ~IndexCoherent(e.post) THEN {"coherent"} ELSE {})
  \cup (IF a.op \in ReadOps /\ ~SameSet(pre, post) THEN {"read_mutates"} ELSE {})
  \cup (IF a.op \in Simple THEN
          LET d == Step(cfg, pre, a) IN
             (IF e.res \notin d.res THEN {"outcome"} ELSE {})
          \cup (IF ~SameSet(post, d.s) THEN {"post"} ELSE {})
          \cup (IF e.res = "ok" /\ e.ret # d.ret THEN {"return"} ELSE {})
        ELSE {})
  \cup (IF a.op = "pop" THEN
          IF pre = <<>> THEN (IF e.res # "KeyError" \/ post # <<>> THEN {"pop"} ELSE {})
          ELSE (IF e.res = "ok" /\ Len(e.ret) = 1 /\ e.ret[1] \in ItemsOf(pre) /\ SameSet(post, Without(pre, e.ret[1].k)) THEN {} ELSE {"pop"})
        ELSE {})
  \cup (IF a.op \in BinOps THEN
          \* under enforce_item_equivalence, combining unequal items with one key is rejected like add
          \* (for a union this is demanded: its result is built by adding both operands' items to one enforcing set)
          IF a.op = "or" /\ cfg.enforce /\ Conflict(pre, a.o.items) /\ e.res # "ValueError" THEN {"enforce_equivalence_union"}
          ELSE IF e.res = "ValueError" /\ cfg.enforce /\ ~Aligned(pre, a.o) THEN {}
          ELSE IF e.res # "ok" \/ ~e.r_is_kset THEN {"algebra_outcome"}
          ELSE IF ~WellFormed(e.ret) THEN {"algebra_items"}
          ELSE (IF ~ResultOK(a.op, pre, a.o, e.ret) THEN {"algebra_one_item_per_key"} ELSE {})
          \cup (IF Strict(cfg, pre, a.o) /\ ~ResultStrict(a.op, pre, a.o, e.ret) THEN {"algebra_keys"} ELSE {})
          \cup (IF ToSet(e.r_keys) # KeysOf(e.ret) \/ e.r_len # Len(e.ret) THEN {"algebra_result_index"} ELSE {})
        ELSE {})
  \cup (IF a.op \in CmpOps THEN
          IF e.res # "ok" \/ Len(e.ret) # 1 \/ e.ret[1] \notin BOOLEAN THEN {"compare_outcome"}
          ELSE IF a.op = "eq" THEN
                 (IF KeysOf(pre) # KeysOf(a.o.items) /\ e.ret[1] THEN {"compare"} ELSE {})
                 \cup (IF KeysOf(pre) = KeysOf(a.o.items) /\ Aligned(pre, a.o) /\ ~e.ret[1] THEN {"compare"} ELSE {})
          ELSE IF Strict(cfg, pre, a.o) /\ e.ret[1] # Cmp(a.op, KeysOf(pre), KeysOf(a.o.items)) THEN {"compare"} ELSE {}
        ELSE {})
  \cup (IF a.op \in IOps THEN
          LET mustFail == cfg.enforce /\ a.op \in {"ior", "ixor"} /\ Conflict(pre, a.o.items) IN
          IF mustFail THEN (IF e.res # "ValueError" THEN {"enforce_equivalence"} ELSE {})
          ELSE IF e.res # "ok" THEN {"inplace_outcome"}
          ELSE IF Strict(cfg, pre, a.o) /\ ~SameSet(post, IStep(cfg, pre, a)) THEN {"inplace_post"} ELSE {}
        ELSE {})
  \cup (IF e.res # "ok" /\ a.op \notin {"ior", "ixor"} /\ ~SameSet(pre, post) THEN {"atomic"} ELSE {})

F == [i \in 1..N |-> Failing(Events[i])]
BadIdx == {i \in 1..N : F[i] # {}}
Bad == UNION {{[i |-> i, c |-> c, d |-> ""] : c \in F[i]} : i \in BadIdx}
Ante == [strict_algebra |-> Cardinality({i \in 1..N : Events[i].a.op \in BinOps /\ Strict(Events[i].cfg, Events[i].pre.s, Events[i].a.o)}),
         loose_algebra |-> Cardinality({i \in 1..N : Events[i].a.op \in BinOps /\ ~Strict(Events[i].cfg, Events[i].pre.s, Events[i].a.o)}),
         enforce_reject |-> Cardinality({i \in 1..N : Events[i].a.op = "add" /\ Events[i].res = "ValueError"}),
         type_reject |-> Cardinality({i \in 1..N : Events[i].res = "TypeError"}),
         mutated |-> Cardinality({i \in 1..N : ~SameSet(Events[i].pre.s, Events[i].post.s)})]
ASSUME JsonSerialize(IOEnv.VERIF_OUT, <<[bad |-> SetToSeq(Bad), n |-> N, ante |-> Ante]>>)
Init == dummy = 0
Next == UNCHANGED dummy
=============================================================================
