------------------------------- MODULE PyTypes -------------------------------
(* Annotation terms and the structural conformance relation  Conforms(v, T)  (property C15; used by
   C03 and the spec-class model for attribute types).  A transcription of the documented meaning of
   the annotation language, not of check_type's control flow.
   CONSTANT-free except for the class table: SubclassOf is fixed here (B <: A; C unrelated; K spec). *)
EXTENDS PyVal

TAny          == [k |-> "any"]
TBase(n)      == [k |-> "base", n |-> n]            \* int float str bool bytes none
TUser(c)      == [k |-> "user", c |-> c]            \* user or spec class by name
TList(a)      == [k |-> "list", a |-> a]
TSet(a)       == [k |-> "set", a |-> a]
TDict(a, b)   == [k |-> "dict", a |-> a, b |-> b]
TTup(as)      == [k |-> "tuple", as |-> as]         \* Tuple[a1, ..., an]
TTupVar(a)    == [k |-> "tuplevar", a |-> a]        \* Tuple[a, ...]
TType(c)      == [k |-> "type", c |-> c]            \* Type[c]
TTypeU(cs)    == [k |-> "typeu", cs |-> cs]         \* Type[Union[cs...]]
TUnion(as)    == [k |-> "union", as |-> as]         \* Union / Optional / X | Y
TLit(vs)      == [k |-> "literal", vs |-> vs]
NoBound       == [b |-> "none", x |-> 0]
TBounded(n, lo, hi) == [k |-> "bounded", n |-> n, lo |-> lo, hi |-> hi]   \* lo.b \in none/ge/gt, hi.b \in none/le/lt ; x integer bound
TValidated(f) == [k |-> "validated", f |-> f]       \* "even" | "nonempty"

SubclassOf(c, d) == c = d \/ (c = "B" /\ d = "A") \/ (c = "bool" /\ d = "int") \/ d = "object"

ConformsBase(v, n) ==
  CASE n = "int"   -> IsIntLike(v)
    [] n = "float" -> IsNum(v)                      \* an int is accepted where float is declared
    [] n = "str"   -> v.t = "str"
    [] n = "bool"  -> v.t = "bool"
    [] n = "bytes" -> v.t = "bytes"
    [] n = "none"  -> v.t = "none"

ValidatorHolds(f, v) ==
  CASE f = "even"     -> IsIntLike(v) /\ IntVal(v) % 2 = 0
    [] f = "nonempty" -> (v.t \in {"list", "tuple", "dict", "set"} /\ v.e # <<>>) \/ (v.t \in {"str", "bytes"} /\ v.s # "")

InBounds(v, lo, hi) ==
  /\ (lo.b = "ge" => Halves(v) >= 2 * lo.x) /\ (lo.b = "gt" => Halves(v) > 2 * lo.x)
  /\ (hi.b = "le" => Halves(v) <= 2 * hi.x) /\ (hi.b = "lt" => Halves(v) < 2 * hi.x)

RECURSIVE Conforms(_, _)
Conforms(v, T) ==
  CASE T.k = "any"      -> TRUE
    [] T.k = "base"     -> ConformsBase(v, T.n)
    [] T.k = "user"     -> v.t = "obj" /\ SubclassOf(v.c, T.c)
    [] T.k = "list"     -> v.t = "list" /\ \A j \in 1..Len(v.e) : Conforms(v.e[j], T.a)
    [] T.k = "set"      -> v.t = "set" /\ \A j \in 1..Len(v.e) : Conforms(v.e[j], T.a)
    [] T.k = "dict"     -> v.t = "dict" /\ \A j \in 1..Len(v.e) : Conforms(v.e[j].k, T.a) /\ Conforms(v.e[j].v, T.b)
    [] T.k = "tuple"    -> v.t = "tuple" /\ Len(v.e) = Len(T.as) /\ \A j \in 1..Len(v.e) : Conforms(v.e[j], T.as[j])
    [] T.k = "tuplevar" -> v.t = "tuple" /\ \A j \in 1..Len(v.e) : Conforms(v.e[j], T.a)
    [] T.k = "type"     -> v.t = "cls" /\ (T.c = "any" \/ SubclassOf(v.n, T.c))          \* Type[Any]: every class
    [] T.k = "typeu"    -> v.t = "cls" /\ \E j \in 1..Len(T.cs) : SubclassOf(v.n, T.cs[j])      \* Type[Union[c1, c2, ...]]: a subclass of some alternative
    [] T.k = "union"    -> \E j \in 1..Len(T.as) : Conforms(v, T.as[j])
    [] T.k = "literal"  -> \E j \in 1..Len(T.vs) : PyEq(v, T.vs[j])
    [] T.k = "bounded"  -> ConformsBase(v, T.n) /\ InBounds(v, T.lo, T.hi)
    [] T.k = "validated" -> ValidatorHolds(T.f, v)
=============================================================================
