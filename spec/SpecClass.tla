------------------------------ MODULE SpecClass ------------------------------
(* State machine over ONE live instance of a scenario's root class (C01-C08, C11): every helper of
   the documented API with every argument combination drawn from the scenario's pools (conforming
   and non-conforming values for each position, raising callbacks, all flag combinations).
   The instance "follows the returned object": after a successful call the state is the result,
   whether the call was copy-on-write or in place (both are in the alphabet and must agree, C05). *)
EXTENDS SpecClassOps, TLC, Json, IOUtils

CONSTANTS CT,        \* class table of the scenario (see SpecClassOps)
          Root,      \* class of the live instance
          Pools,     \* [attr |-> [vp, kwp, fp, kwfp, ip, xp, vop, kp, ikwp, ifp, ikwfp : sequences]], plus Pools._top = [kw, kwf]
          MaxLen     \* bound on collection sizes (state constraint)
VARIABLES o, last
vars == <<o, last>>
View == o

S(seq) == ToSet(seq)
P(a)   == Pools[a]
CowInp == {[inplace |-> FALSE, iff |-> TRUE], [inplace |-> TRUE, iff |-> TRUE]}
Flags  == CowInp \cup {[inplace |-> FALSE, iff |-> FALSE]}
F(r, fl) == [k \in DOMAIN r \cup {"inplace", "iff"} |-> IF k = "inplace" THEN fl.inplace ELSE IF k = "iff" THEN fl.iff ELSE r[k]]
ByIdx  == {"missing", "true", "false"}

ScalarActs(a) ==
       {F([op |-> "with", attr |-> a, v |-> v, kw |-> kw], fl) : v \in S(P(a).vp) \cup {Unchanged}, kw \in S(P(a).kwp), fl \in Flags}
  \cup {F([op |-> "update", attr |-> a, v |-> v, kw |-> kw], fl) : v \in S(P(a).up) \cup {Unchanged}, kw \in S(P(a).kwp), fl \in CowInp}
  \cup {F([op |-> "transform", attr |-> a, f |-> f, kwf |-> kwf], fl) : f \in S(P(a).fp), kwf \in S(P(a).kwfp), fl \in Flags}
  \cup {F([op |-> "reset", attr |-> a], fl) : fl \in Flags}
  \cup {[op |-> "setattr", attr |-> a, v |-> v] : v \in S(P(a).vp) \cup {Unchanged}}
  \cup {[op |-> "delattr", attr |-> a]}

ElemActs(a) ==
  LET fam == Family(ASpec(CT, Root, a).ty) IN
  IF ASpec(CT, Root, a).item = "" THEN {}
  ELSE IF fam = "seq" THEN
       {F([op |-> "with_item", attr |-> a, item |-> it, index |-> ix, insert |-> ins, kw |-> kw], fl) :
            it \in S(P(a).ip), ix \in S(P(a).xp) \cup {PMissing}, ins \in BOOLEAN, kw \in S(P(a).ikwp), fl \in CowInp}
  \cup {F([op |-> "update_item", attr |-> a, voi |-> vo, item |-> it, byidx |-> b, kw |-> kw], fl) :
            vo \in S(P(a).vop), it \in S(P(a).uip), b \in ByIdx, kw \in S(P(a).ikwp), fl \in CowInp}
  \cup {F([op |-> "transform_item", attr |-> a, voi |-> vo, f |-> f, byidx |-> b, kwf |-> kwf], fl) :
            vo \in S(P(a).vop), f \in S(P(a).ifp), b \in ByIdx, kwf \in S(P(a).ikwfp), fl \in CowInp}
  \cup {F([op |-> "without_item", attr |-> a, voi |-> vo, byidx |-> b], fl) : vo \in S(P(a).vop), b \in ByIdx, fl \in CowInp}
  ELSE IF fam = "map" THEN
       {F([op |-> "with_item", attr |-> a, key |-> k, item |-> it, kw |-> kw], fl) : k \in S(P(a).kp), it \in S(P(a).ip), kw \in S(P(a).ikwp), fl \in CowInp}
  \cup {F([op |-> "update_item", attr |-> a, key |-> k, item |-> it, kw |-> kw], fl) : k \in S(P(a).kp), it \in S(P(a).uip), kw \in S(P(a).ikwp), fl \in CowInp}
  \cup {F([op |-> "transform_item", attr |-> a, key |-> k, f |-> f, kwf |-> kwf], fl) : k \in S(P(a).kp), f \in S(P(a).ifp), kwf \in S(P(a).ikwfp), fl \in CowInp}
  \cup {F([op |-> "without_item", attr |-> a, key |-> k], fl) : k \in S(P(a).kp), fl \in CowInp}
  ELSE IF ASpec(CT, Root, a).ty.k = "kset" THEN          \* KeyedSet of keyed spec items: keyword forms as for lists of spec items
       {F([op |-> "with_item", attr |-> a, item |-> it, kw |-> kw], fl) : it \in S(P(a).ip), kw \in S(P(a).ikwp), fl \in CowInp}
  \cup {F([op |-> "update_item", attr |-> a, voi |-> vo, item |-> it, kw |-> kw], fl) : vo \in S(P(a).vop), it \in S(P(a).uip), kw \in S(P(a).ikwp), fl \in CowInp}
  \cup {F([op |-> "transform_item", attr |-> a, voi |-> vo, f |-> f, kwf |-> kwf], fl) : vo \in S(P(a).vop), f \in S(P(a).ifp), kwf \in S(P(a).ikwfp), fl \in CowInp}
  \cup {F([op |-> "without_item", attr |-> a, voi |-> vo], fl) : vo \in S(P(a).vop), fl \in CowInp}
  ELSE
       {F([op |-> "with_item", attr |-> a, item |-> it, kw |-> <<>>], fl) : it \in S(P(a).ip), fl \in CowInp}
  \cup {F([op |-> "update_item", attr |-> a, voi |-> vo, item |-> it, kw |-> <<>>], fl) : vo \in S(P(a).vop), it \in S(P(a).uip), fl \in CowInp}
  \cup {F([op |-> "transform_item", attr |-> a, voi |-> vo, f |-> f], fl) : vo \in S(P(a).vop), f \in S(P(a).ifp), fl \in CowInp}
  \cup {F([op |-> "without_item", attr |-> a, voi |-> vo], fl) : vo \in S(P(a).vop), fl \in CowInp}

\* replacement instances for update(<instance>, **kw): two constructible states of the root class
ReplPool == LET ok == {r.val : r \in {rr \in {Construct(CT, Root, kw) : kw \in S(Pools._top.init)} : IsOk(rr)}} IN
            IF ok = {} THEN {} ELSE LET x == CHOOSE v \in ok : TRUE IN IF ok = {x} THEN {x} ELSE {x, CHOOSE v \in ok \ {x} : TRUE}
TopActs ==
       {F([op |-> "update_top", kw |-> kw], fl) : kw \in S(Pools._top.kw), fl \in Flags}
  \cup {F([op |-> "transform_top", kwf |-> kwf], fl) : kwf \in S(Pools._top.kwf), fl \in CowInp}
  \cup {F([op |-> "reset_top"], fl) : fl \in CowInp}
  \cup {F([op |-> "construct", kw |-> kw], [inplace |-> FALSE, iff |-> TRUE]) : kw \in S(Pools._top.kw) \cup S(Pools._top.init)}
  \cup {F([op |-> "update_repl", v |-> v, kw |-> kw], [inplace |-> FALSE, iff |-> TRUE]) : v \in ReplPool, kw \in S(Pools._top.kw)}

PropActs == UNION {{[op |-> "read", p |-> p], [op |-> "delprop", p |-> p]} \cup {[op |-> "override", p |-> p, v |-> v] : v \in S(Pools._top.ovp)} : p \in PropNames(CT, Root)}
Acts == UNION {ScalarActs(a) \cup ElemActs(a) : a \in AttrSet(CT, Root)} \cup TopActs \cup PropActs

RECURSIVE SmallVal(_)
SmallVal(v) == CASE v.t \in {"list", "klist", "kset", "tuple"} -> Len(v.e) <= MaxLen /\ \A j \in 1..Len(v.e) : SmallVal(v.e[j])
                 [] v.t = "dict" -> Len(v.e) <= MaxLen /\ \A j \in 1..Len(v.e) : SmallVal(v.e[j].v)
                 [] v.t = "set"  -> Len(v.e) <= MaxLen
                 [] v.t = "obj"  -> \A a \in DOMAIN v.a : SmallVal(v.a[a])
                 [] OTHER -> TRUE

Inits == {r.val : r \in {rr \in {Construct(CT, Root, kw) : kw \in S(Pools._top.init)} : IsOk(rr)}}
Init == o \in Inits /\ last = [a |-> [op |-> "init"], res |-> {"ok"}]
Next == \E act \in Acts :
          LET r == Step(CT, o, act) IN
          /\ last' = [a |-> act, res |-> r.res]
          /\ IF r.res = {"ok"} /\ r.val.t = "obj" /\ SmallVal(r.val) THEN o' = r.val ELSE o' = o
Spec == Init /\ [][Next]_vars

\* C03: managed attributes always satisfy their declared type (recursively through nested instances)
InvTypeOK == TypeOKObj(CT, o)
\* C11: no cached derived value is stale, in any reachable state
InvFresh == Fresh(CT, o)
\* C04 (value level): a failing call is never partially committed; C07: frozen instances only evolve by copy
PropAtomic == [][last'.res # {"ok"} => o' = o]_vars
\* C05 lemma: obj.a = v  is  with_a(v, _inplace=True);  copy-on-write and in-place forms compute the same value
PropSetAttrIsWith == [][LET a == last'.a IN a.op = "setattr" =>
                          Step(CT, o, a).val = Step(CT, o, [op |-> "with", attr |-> a.attr, v |-> a.v, kw |-> <<>>, inplace |-> TRUE, iff |-> TRUE]).val]_vars
PropCowEqualsInplace == [][LET a == last'.a IN "inplace" \in DOMAIN a /\ a.op \notin {"update_repl", "construct"} =>
                             LET x == Step(CT, o, [a EXCEPT !.inplace = TRUE]) y == Step(CT, o, [a EXCEPT !.inplace = FALSE])
                             IN (~Frozen(CT, o) => x.val = y.val /\ x.res = y.res)]_vars
\* C05: _if=False makes every helper a no-op returning the receiver
\* (a keyword outside the advertised signature is still rejected first, C17)
PropIfFalse == [][LET a == last'.a IN ("iff" \in DOMAIN a /\ ~a.iff) => last'.res \in {{"ok"}, {"TypeError"}} /\ o' = o]_vars

ASSUME IF "VERIF_ACTS" \in DOMAIN IOEnv THEN JsonSerialize(IOEnv.VERIF_ACTS, SetToSeq(Acts)) ELSE TRUE
=============================================================================
