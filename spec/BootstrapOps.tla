---------------------------- MODULE BootstrapOps ----------------------------
(* Protocol-level specification of lazy bootstrapping of a class hierarchy (property C19): what any
   implementation must look like from outside, whatever its locking.
     s = [phase : [Classes -> "raw" | "bootstrapping" | "ready"], owner : [Classes -> thread | "none"],
          decl : [Classes -> [declared attribute -> "declared" | "consumed"]]]
   Events (observed on the real class objects, see harness/d_bootstrap.py):
     Change(t, c, what)  thread t modified class c's bootstrap-relevant state (what = "decl:<a>" consumes the
                         Attr/Field declaration of a; anything else is metadata / method registration)
     Publish(c)          class c reached its final (eager-equivalent) state
     Observe(t, c)       a first use of c by thread t returned to its caller                                   *)
EXTENDS Integers, Sequences, FiniteSets

ParentReady(parent, s, c) == parent[c] = "none" \/ s.phase[parent[c]] = "ready"

\* Begin is implicit in the first Change by a thread on a raw class
ChangeOK(parent, s, e) ==
  LET c == e.c IN
  /\ s.phase[c] # "ready"                                         \* nothing is modified after publication
  /\ (s.phase[c] = "raw" => ParentReady(parent, s, c))            \* parents first
  /\ (s.phase[c] = "bootstrapping" => s.owner[c] = e.t)           \* at most one bootstrap per class, by one thread
  /\ (e.what \in DOMAIN s.decl[c] => s.decl[c][e.what] = "declared")   \* a declaration is consumed once
ChangeApply(s, e) ==
  LET c == e.c IN
  [s EXCEPT !.phase[c] = "bootstrapping", !.owner[c] = e.t,
            !.decl[c] = IF e.what \in DOMAIN s.decl[c] THEN [s.decl[c] EXCEPT ![e.what] = "consumed"] ELSE s.decl[c]]
PublishOK(s, e) == s.phase[e.c] = "bootstrapping" /\ \A a \in DOMAIN s.decl[e.c] : s.decl[e.c][a] = "consumed"
PublishApply(s, e) == [s EXCEPT !.phase[e.c] = "ready"]
ObserveOK(s, e) == s.phase[e.c] = "ready"                          \* nobody sees a half-built class

StepOK(parent, s, e) == CASE e.ev = "change" -> ChangeOK(parent, s, e) [] e.ev = "publish" -> PublishOK(s, e) [] e.ev = "observe" -> ObserveOK(s, e)
StepApply(s, e) == CASE e.ev = "change" -> ChangeApply(s, e) [] e.ev = "publish" -> PublishApply(s, e) [] e.ev = "observe" -> s
=============================================================================
