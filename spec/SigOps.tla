------------------------------- MODULE SigOps -------------------------------
(* Call binding against an advertised signature, and the nested-attribute keywords a generated method must advertise (C17).
   sig  = Seq([n : name, kind : "pos" | "kwonly" | "varpos" | "varkw", hasd : BOOLEAN])   (without self)
   call = [npos : Nat, kws : Seq(name)]
   ST   = class table [class -> [attrs : Seq(name), init : [name -> BOOLEAN], ty : [name -> [fam, item]], overflow : name | ""]]
          ty[a].fam \in {"scalar", "seq", "map", "set"}; ty[a].item = nested spec class of the attribute (scalar) or of its elements, or "" *)
EXTENDS Integers, Sequences, FiniteSets, SequencesExt
Names(seq) == {seq[j] : j \in 1..Len(seq)}
Pos(sig)   == SelectSeq(sig, LAMBDA p : p.kind = "pos")
HasKind(sig, k) == \E j \in 1..Len(sig) : sig[j].kind = k
\* Python's binding rules: does the call bind?
Binds(sig, call) ==
  LET P == Pos(sig)
      bypos == {P[j].n : j \in 1..(IF call.npos <= Len(P) THEN call.npos ELSE Len(P))}
      named == {sig[j].n : j \in {i \in 1..Len(sig) : sig[i].kind \in {"pos", "kwonly"}}}
  IN /\ (call.npos <= Len(P) \/ HasKind(sig, "varpos"))                                  \* not too many positionals
     /\ Len(call.kws) = Cardinality(Names(call.kws))                                     \* no keyword twice
     /\ \A k \in Names(call.kws) : (k \in named /\ k \notin bypos) \/ (k \notin named /\ HasKind(sig, "varkw"))   \* known, not already positional
     /\ \A j \in 1..Len(sig) : (sig[j].kind \in {"pos", "kwonly"} /\ ~sig[j].hasd) => sig[j].n \in bypos \cup Names(call.kws)   \* required ones bound

\* nested keywords: the init-enabled, non-overflow attributes of the nested spec class
InitAttrs(ST, c) == SelectSeq(ST[c].attrs, LAMBDA a : ST[c].init[a] /\ a # ST[c].overflow)
\* m = [cls, fam : "init" | "top" | "scalar" | "elem", verb, attr]
NestedClass(ST, m) ==
  CASE m.fam \in {"init", "top"} -> (IF m.verb = "reset" THEN "" ELSE m.cls)
    [] m.fam = "scalar" -> (IF m.verb = "reset" \/ ST[m.cls].ty[m.attr].fam # "scalar" THEN "" ELSE ST[m.cls].ty[m.attr].item)
    [] m.fam = "elem"   -> (IF m.verb = "without" THEN "" ELSE ST[m.cls].ty[m.attr].item)
NestedKw(ST, m, real) == IF NestedClass(ST, m) = "" THEN {} ELSE Names(InitAttrs(ST, NestedClass(ST, m))) \ real     \* real = the method's own parameter names
\* where the value given for keyword k must be found once the real method has run: the nested attribute of that name, or (a name outside
\* the nested class's attributes, legal only under an advertised **overflow) the nested overflow mapping; updating an EXISTING element with
\* overflow names is left open (the library sets them as plain attributes of the element)
Destination(ST, m, k) ==
  LET nc == NestedClass(ST, m) IN
  IF nc = "" THEN {"rejected"}
  ELSE IF k \in Names(InitAttrs(ST, nc)) THEN {"attr"}
  ELSE IF ST[nc].overflow # "" THEN (IF m.fam \in {"elem", "top"} /\ m.verb = "update" THEN {"attr", "in:" \o ST[nc].overflow} ELSE {"in:" \o ST[nc].overflow})
  ELSE {"rejected"}
WantsVarKw(ST, m) == NestedClass(ST, m) # "" /\ ST[NestedClass(ST, m)].overflow # ""
=============================================================================
