---------------------------- MODULE J_Decoration ----------------------------
(* Judge for C16: class dictionary snapshots of real classes (before decoration, after decoration, after bootstrap, after
   first use of every helper) against DecorationOps. *)
EXTENDS DecorationOps, TLC, Json, IOUtils
VARIABLE dummy
Events == ndJsonDeserialize(IOEnv.VERIF_EVENTS)
N == Len(Events)
Infra == {"__spec_class__", "__dataclass_fields__", "__new__", "__annotations__"}
Failing(e) ==
  LET Dd == e.D body == ToSet(e.declared)
      expect == IF IllegalPrivate(Dd) THEN "ValueError" ELSE IF RaisesRuntimeError(Dd) THEN "RuntimeError" ELSE "ok" IN
     (IF e.res # expect THEN {"decoration_outcome"} ELSE {})
  \cup (IF \E j \in 1..Len(e.phases) : e.phases[j].replaced # <<>> THEN {"user_code_replaced"} ELSE {})
  \cup (IF e.res = "ok" /\ expect = "ok" THEN
          \* (a lazily built method of a parent replaces its placeholder in the parent, never in the subclass it was reached through)
          LET fin == e.phases[Len(e.phases)] added == ToSet(fin.names) \ (body \cup Infra) want == Generated(Dd) \ body
              inherited == {"__init__", "__repr__", "__eq__", "__getattr__", "__setattr__", "__delattr__", "__deepcopy__"} IN
             (IF want \ added # {} THEN {"documented_helper_missing"} ELSE {})
          \cup (IF added \ (want \cup inherited) # {} THEN {"undocumented_name_added"} ELSE {})
          \cup (IF ~(Backups \subseteq ToSet(fin.names)) THEN {"spec_class_backups_missing"} ELSE {})
          \cup (IF \E j \in 2..Len(e.phases) : e.phases[j].phase \in {"bootstrapped", "used"} /\ ~(want \subseteq ToSet(e.phases[j].names)) THEN {"helpers_differ_between_phases"} ELSE {})
        ELSE {})
F == [i \in 1..N |-> Failing(Events[i])]
BadIdx == {i \in 1..N : F[i] # {}}
Bad == UNION {{[i |-> i, c |-> c, d |-> ""] : c \in F[i]} : i \in BadIdx}
Ante == [ok |-> Cardinality({i \in 1..N : Events[i].res = "ok"}), errors |-> Cardinality({i \in 1..N : Events[i].res # "ok"}),
         occupied |-> Cardinality({i \in 1..N : Events[i].extra # "-"})]
ASSUME JsonSerialize(IOEnv.VERIF_OUT, <<[bad |-> SetToSeq(Bad), n |-> N, ante |-> Ante]>>)
Init == dummy = 0
Next == UNCHANGED dummy
=============================================================================
