----------------------------- MODULE Decoration -----------------------------
(* State machine over the class dictionary (C16): declared --Bootstrap--> ready --Touch(name)*--> ...; the class body may
   pre-define any one of the generated names (variable extra).
   cd : [name -> [kind : "user" | "lazy" | "built", tok]]   (tok = identity of the stored object) *)
EXTENDS DecorationOps, TLC, Json, IOUtils
CONSTANTS D, Dev
VARIABLES phase, cd, extra, k
vars == <<phase, cd, extra, k>>
Order == SetToSeq(Generated(D))          \* lazy descriptors are touched in one fixed order (their effects are independent)
Body == Names(D.body) \cup (IF extra = "-" THEN {} ELSE {extra})
UserTok(n) == IF n = extra THEN 1 ELSE 1 + (CHOOSE j \in 1..Len(D.body) : D.body[j] = n)
Init == phase = "declared" /\ k = 0 /\ extra \in Generated(D) \cup {"-"}
        /\ cd = [n \in Names(D.body) \cup (IF extra = "-" THEN {} ELSE {extra}) |-> [kind |-> "user", tok |-> IF n = extra THEN 1 ELSE 1 + (CHOOSE j \in 1..Len(D.body) : D.body[j] = n)]]
Register(c, n) ==        \* add a generated method under name n unless the class body already defines that name (backups always)
  IF n \in DOMAIN c /\ n \notin Backups /\ "register_overwrites" \notin Dev THEN c
  ELSE [m \in DOMAIN c \cup {n} |-> IF m = n THEN [kind |-> "lazy", tok |-> 1000] ELSE c[m]]
RECURSIVE RegisterAll(_, _)
RegisterAll(c, ns) == IF ns = {} THEN c ELSE LET n == CHOOSE m \in ns : TRUE IN RegisterAll(Register(c, n), ns \ {n})
Bootstrap == phase = "declared" /\ ~RaisesRuntimeError(D) /\ ~IllegalPrivate(D)
             /\ phase' = "ready" /\ cd' = RegisterAll(cd, Generated(D)) /\ UNCHANGED <<extra, k>>
Touch == phase = "ready" /\ k < Len(Order) /\ k' = k + 1
         /\ cd' = (IF cd[Order[k + 1]].kind = "lazy" THEN [cd EXCEPT ![Order[k + 1]] = [kind |-> "built", tok |-> 2000]] ELSE cd)
         /\ UNCHANGED <<phase, extra>>
Next == Bootstrap \/ Touch
Spec == Init /\ [][Next]_vars
\* C16: nothing the class body defines is ever replaced
UserPreserved == \A n \in Body : n \in DOMAIN cd /\ (n \notin Backups => cd[n] = [kind |-> "user", tok |-> UserTok(n)])
\* exactly the documented names are added
ExactHelpers == phase = "ready" => DOMAIN cd = Body \cup Generated(D)
ASSUME IF "VERIF_ACTS" \in DOMAIN IOEnv
       THEN JsonSerialize(IOEnv.VERIF_ACTS, [generated |-> SetToSeq(Generated(D)), helpers |-> SetToSeq(Helpers(D)), raises |-> RaisesRuntimeError(D), illegal |-> IllegalPrivate(D)]) ELSE TRUE
=============================================================================
