-------------------------------- MODULE PyJson --------------------------------
(* JSON wire format -> PyVal: JSON has no sets, so set payloads arrive as arrays. *)
EXTENDS PyVal, SequencesExt
RECURSIVE FromJson(_)
FromJson(v) ==
  CASE v.t \in {"list", "tuple"} -> [v EXCEPT !.e = [j \in 1..Len(v.e) |-> FromJson(v.e[j])]]
    [] v.t = "set"  -> [v EXCEPT !.e = {FromJson(v.e[j]) : j \in 1..Len(v.e)}]
    [] v.t = "dict" -> [v EXCEPT !.e = [j \in 1..Len(v.e) |-> [k |-> FromJson(v.e[j].k), v |-> FromJson(v.e[j].v)]]]
    [] v.t = "obj"  -> [v EXCEPT !.a = [f \in DOMAIN v.a |-> FromJson(v.a[f])]]
    [] OTHER -> v
=============================================================================
