----------------------------- MODULE J_Bootstrap -----------------------------
(* Judge for C19: each event is one scheduled execution of several threads' first use of a lazily
   bootstrapped class; it must be a behaviour of BootstrapOps and every observation must equal the
   eager sequential reference. *)
EXTENDS BootstrapOps, TLC, Json, IOUtils, SequencesExt
VARIABLE dummy
Events == ndJsonDeserialize(IOEnv.VERIF_EVENTS)
N == Len(Events)

InitState(e) == [phase |-> [c \in ToSet(e.classes) |-> "raw"], owner |-> [c \in ToSet(e.classes) |-> "none"],
                 decl |-> [c \in ToSet(e.classes) |-> [a \in ToSet(e.decls[c]) |-> "declared"]]]
RECURSIVE Run(_, _, _, _)
Run(parent, s, evs, i) ==
  IF i > Len(evs) THEN {}
  ELSE LET ev == evs[i] IN
       (IF StepOK(parent, s, ev) THEN {} ELSE {<<i, IF ev.ev = "observe" THEN "observed_partially_initialised_class"
                                                    ELSE IF ev.ev = "change" THEN "not_single_bootstrap" ELSE "publish_incomplete">>})
       \cup Run(parent, StepApply(s, ev), evs, i + 1)
Failing(e) ==
     (IF \E j \in 1..Len(e.threads) : e.threads[j].outcome # "ok" THEN {<<0, "thread_raised">>} ELSE {})
  \cup (IF \E j \in 1..Len(e.threads) : e.threads[j].outcome = "ok" /\ (e.threads[j].desc # e.threads[j].want_desc \/ e.threads[j].inst # e.threads[j].want_inst)
        THEN {<<0, "observation_differs_from_eager">>} ELSE {})
  \cup (IF e.final.desc # e.eager.desc \/ e.final.inst # e.eager.inst THEN {<<0, "final_class_differs_from_eager">>} ELSE {})
  \cup (IF e.deadlock THEN {<<0, "deadlock">>} ELSE {})
  \cup Run(e.parent, InitState(e), e.events, 1)
F == [i \in 1..N |-> Failing(Events[i])]
BadIdx == {i \in 1..N : F[i] # {}}
Bad == UNION {{[i |-> i, c |-> f[2], d |-> ToString(f[1])] : f \in F[i]} : i \in BadIdx}
Ante == [executions |-> N,
         with_changes |-> Cardinality({i \in 1..N : \E j \in 1..Len(Events[i].events) : Events[i].events[j].ev = "change"}),
         consumed_decl |-> Cardinality({i \in 1..N : \E j \in 1..Len(Events[i].events) : Events[i].events[j].ev = "change" /\ Events[i].events[j].what \in ToSet(Events[i].decls[Events[i].events[j].c])})]
ASSUME JsonSerialize(IOEnv.VERIF_OUT, <<[bad |-> SetToSeq(Bad), n |-> N, ante |-> Ante]>>)
Init == dummy = 0
Next == UNCHANGED dummy
=============================================================================
