------------------------------ MODULE KeyedSet ------------------------------
(* State machine over one KeyedSet (C14). *)
EXTENDS KeyedSetOps, TLC, Json, IOUtils, SequencesExt

CONSTANTS Keys, Payloads, MaxLen, Typed, Enforce, Dev
VARIABLES s, last
vars == <<s, last>>
View == s

Cfg    == [typed |-> Typed, enforce |-> Enforce]
Items  == [k : Keys, p : Payloads, bad : {"no"}]
AnyKey == CHOOSE k \in Keys : TRUE
\* "itemk": an item of the wrong type that nevertheless yields a perfectly good key (possibly one already present)
BadItems == IF Typed THEN {[k |-> AnyKey, p |-> 0, bad |-> "item"], [k |-> AnyKey, p |-> 0, bad |-> "key"]} \cup {[k |-> k, p |-> 0, bad |-> "itemk"] : k \in Keys} ELSE {}
Args   == {[kind |-> "key", k |-> k] : k \in Keys} \cup {[kind |-> "item", x |-> x] : x \in Items}
ItemSeqs == {<<>>} \cup {<<x>> : x \in Items} \cup {<<x, y>> \in Items \X Items : x.k # y.k}
Operands == {[kind |-> "kset", items |-> xs, enforce |-> e] : xs \in ItemSeqs, e \in BOOLEAN}
       \cup {[kind |-> "set", items |-> xs, enforce |-> FALSE] : xs \in ItemSeqs}

Mutators ==
       {[op |-> "add", x |-> x] : x \in Items \cup BadItems}
  \cup {[op |-> o, arg |-> g] : o \in {"discard", "remove"}, g \in Args}
  \cup {[op |-> "pop"], [op |-> "clear"]}
  \cup {[op |-> o, o |-> od] : o \in {"ior", "iand", "isub", "ixor"}, od \in Operands}
Reads ==
       {[op |-> o, arg |-> g] : o \in {"getitem", "contains"}, g \in Args}
  \cup {[op |-> "get", k |-> k] : k \in Keys}
  \cup {[op |-> o, o |-> od] : o \in {"or", "and", "sub", "xor", "le", "lt", "ge", "gt", "eq", "isdisjoint"}, od \in Operands}
Acts == Mutators \cup Reads

\* operational successor (as the code computes it)
OpNext(a) ==
  CASE a.op = "add"     -> OpAdd(Cfg, s, a.x)
    [] a.op = "discard" -> [d |-> OpDiscard(Cfg, s, a.arg), res |-> "ok"]
    [] a.op = "remove"  -> IF OpContains(Cfg, s, a.arg) THEN [d |-> OpDiscard(Cfg, s, a.arg), res |-> "ok"] ELSE [d |-> s, res |-> "KeyError"]
    [] a.op = "pop"     -> IF s = <<>> THEN [d |-> s, res |-> "KeyError"] ELSE [d |-> OpDiscard(Cfg, s, AsArg(Head(s))), res |-> "ok"]
    [] a.op = "clear"   -> [d |-> <<>>, res |-> "ok"]
    [] OTHER            -> IF Enforce /\ a.op \in {"ior", "ixor"} /\ Conflict(s, a.o.items) THEN [d |-> s, res |-> "ValueError"]
                           ELSE [d |-> IStep(Cfg, s, a), res |-> "ok"]

Init == s = <<>> /\ last = [a |-> [op |-> "init"], res |-> "ok"]
Next == \E a \in Mutators : LET n == OpNext(a) IN Len(n.d) <= MaxLen /\ s' = n.d /\ last' = [a |-> a, res |-> n.res]
Spec == Init /\ [][Next]_vars

InvUnique == ~HasDup(s)
\* the operational probes implement the declarative item-or-key rule
InvResolution == \A g \in Args : /\ OpContains(Cfg, s, g) = ContainsArg(Cfg, s, g)
                                 /\ OpDiscard(Cfg, s, g) = Step(Cfg, s, [op |-> "discard", arg |-> g]).s
PropRefines == [][LET a == last'.a IN a.op \in {"add", "discard", "remove", "pop", "clear"} =>
                     LET d == Step(Cfg, s, a) IN last'.res \in d.res /\ s' = d.s]_vars
PropAtomic == [][last'.res # "ok" => s' = s]_vars
\* the mixin-derived operators, applied to any operand, give set algebra on keys
InvAlgebra == \A od \in Operands, op \in {"or", "and", "sub", "xor"} :
                 LET r == OpBin(Dev, Cfg, s, op, od)
                 IN ResultOK(op, s, od, r) /\ (Strict(Cfg, s, od) => ResultStrict(op, s, od, r))

ASSUME IF "VERIF_ACTS" \in DOMAIN IOEnv THEN JsonSerialize(IOEnv.VERIF_ACTS, SetToSeq(Acts)) ELSE TRUE
=============================================================================
