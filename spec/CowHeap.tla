------------------------------- MODULE CowHeap -------------------------------
(* Heap-with-identities model of the copy / alias rules behind C01, C02 and C08.
   Every mutable value is a CELL with an identity and a content version.  ROOTS are things the user can hold:
   the class default object, an object passed to a constructor, and live instances; each root maps attribute
   names to cell ids ("x" is an ordinary attribute, "big" is declared do_not_copy).
   Rules (the design):  R1 construction copies defaults and arguments      R2 copy-on-write copies the receiver
                        R3 deepcopy copies everything except do_not_copy   R4 reset installs a fresh copy of the default
   Dev switches single rules to "share instead of copy" to show the invariants bite. *)
EXTENDS Integers, FiniteSets, TLC
CONSTANTS Insts, Dev, MaxCells
VARIABLES ver,        \* ver[c] : content version of cell c (bumped by in-place mutation)
          roots,      \* roots[r] : [x |-> cell, big |-> cell] or "none"
          next,       \* next fresh cell id
          last
vars == <<ver, roots, next, last>>
Attrs == {"x", "big"}
NoneR == [x |-> 0, big |-> 0]
Fixed == {"dflt", "arg"}                     \* the class default and a retained constructor argument
Live  == {i \in Insts : roots[i] # NoneR}
Fresh(n) == next + n
Init == /\ ver = [c \in 1..MaxCells |-> 0]
        /\ roots = [r \in Fixed \cup Insts |-> IF r = "dflt" THEN [x |-> 1, big |-> 2] ELSE IF r = "arg" THEN [x |-> 3, big |-> 4] ELSE NoneR]
        /\ next = 5 /\ last = [op |-> "init", who |-> NoneR]
CopyOf(c, share) == IF share THEN c ELSE 0     \* 0 = "allocate"
Room(n) == next + n - 1 <= MaxCells

\* R1: construct instance i from the class default or from the argument object
Construct(i, src) ==
  /\ roots[i] = NoneR /\ Room(2)
  /\ LET share == ("construct_shares_default" \in Dev /\ src = "dflt") \/ ("construct_shares_arg" \in Dev /\ src = "arg")
     IN roots' = [roots EXCEPT ![i] = [x |-> IF share THEN roots[src].x ELSE next, big |-> IF share THEN roots[src].big ELSE next + 1]]
  /\ ver' = [ver EXCEPT ![next] = ver[roots[src].x], ![next + 1] = ver[roots[src].big]]
  /\ next' = next + 2 /\ last' = [op |-> "construct", who |-> i]
\* R2/R3: j becomes a copy of i (copy-on-write result or deepcopy): x copied, big (do_not_copy) carried by identity
Copy(i, j) ==
  /\ roots[i] # NoneR /\ roots[j] = NoneR /\ Room(1)
  /\ roots' = [roots EXCEPT ![j] = [x |-> IF "copy_shares" \in Dev THEN roots[i].x ELSE next, big |-> roots[i].big]]
  /\ ver' = [ver EXCEPT ![next] = ver[roots[i].x]]
  /\ next' = next + 1 /\ last' = [op |-> "copy", who |-> j]
\* R4: reset attribute x of i to the default
Reset(i) ==
  /\ roots[i] # NoneR /\ Room(1)
  /\ roots' = [roots EXCEPT ![i].x = IF "reset_shares_default" \in Dev THEN roots["dflt"].x ELSE next]
  /\ ver' = [ver EXCEPT ![next] = ver[roots["dflt"].x]]
  /\ next' = next + 1 /\ last' = [op |-> "reset", who |-> i]
\* in-place mutation of a nested value through instance i
Poke(i, a) ==
  /\ roots[i] # NoneR /\ ver[roots[i][a]] < 2
  /\ ver' = [ver EXCEPT ![roots[i][a]] = @ + 1] /\ UNCHANGED <<roots, next>> /\ last' = [op |-> "poke", who |-> i, attr |-> a]
Drop(i) == roots[i] # NoneR /\ roots' = [roots EXCEPT ![i] = NoneR] /\ UNCHANGED <<ver, next>> /\ last' = [op |-> "drop", who |-> i]
Next == \E i \in Insts : \/ \E s \in Fixed : Construct(i, s) \/ Reset(i) \/ Drop(i) \/ \E a \in Attrs : Poke(i, a) \/ \E j \in Insts \ {i} : Copy(i, j)
Spec == Init /\ [][Next]_vars

Seen(r) == [a \in Attrs |-> ver[roots[r][a]]]                \* what root r observably contains
\* no two roots reach one mutable cell, except through the do_not_copy attribute of instances derived from one another
NoSharing == \A r, s \in Fixed \cup Live : r # s => roots[r].x # roots[s].x /\ (r \in Fixed \/ s \in Fixed => roots[r].big # roots[s].big)
\* C08 / C02 behavioural statement: an in-place change through one instance is invisible through every other root,
\* except through do_not_copy attributes of live instances
PokeIsolated == [][last'.op = "poke" =>
                     \A r \in (Fixed \cup Live) \ {last'.who} :
                        Seen(r)'.x = Seen(r).x /\ (r \in Fixed => Seen(r)'.big = Seen(r).big)]_vars
DefaultsStable == [][roots'["dflt"] = roots["dflt"] /\ roots'["arg"] = roots["arg"]]_vars
=============================================================================
