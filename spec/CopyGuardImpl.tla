---------------------------- MODULE CopyGuardImpl ----------------------------
(* Implementation-shaped model of spec_classes.utils.mutation._modules_copyable (C20).
   Design constants:
     ReInit      TRUE  = the singleton's __init__ re-runs on every `_modules_copyable()` call and resets
                         lock / refcount / patched_table  (the code before the fix)
     RacyNew     TRUE  = singleton creation is "test hasattr, then assign" without a lock
   The fixed code is ReInit = FALSE, RacyNew = FALSE. *)
EXTENDS Integers, FiniteSets, Sequences, TLC
CONSTANTS Threads, Table0, Depth, ReInit, RacyNew

(* --algorithm guard
variables table = Table0,
          made = 0,                       \* number of singleton objects created so far (0, 1, or 2 when racy)
          cur = 0,                        \* the object currently stored in cls.__instance__
          holder = [i \in 1..2 |-> "none"], hcount = [i \in 1..2 |-> 0],   \* per-object RLock
          refcount = [i \in 1..2 |-> 0], patched = [i \in 1..2 |-> FALSE],
          engaged = [t \in Threads |-> 0], copying = [t \in Threads |-> 0];

procedure Protect(d)
  variables me = 0, saw = FALSE;
begin
  new1: saw := (cur # 0);                                        \* hasattr(cls, "__instance__")
  new2: if ~saw then
          if RacyNew \/ cur = 0 then
            made := made + 1; cur := made; me := made;
          else me := cur; end if;
        else me := cur; end if;
  ini:  if ReInit then holder[me] := "none" || hcount[me] := 0; refcount[me] := 0; patched[me] := FALSE; end if;
        engaged[self] := engaged[self] + 1;
  en1:  await holder[me] \in {"none", self}; holder[me] := self || hcount[me] := hcount[me] + 1;
  en2:  refcount[me] := refcount[me] + 1;
  en3:  if table = "absent" then table := "ours"; patched[me] := TRUE; end if;
  en4:  hcount[me] := hcount[me] - 1; if hcount[me] = 0 then holder[me] := "none"; end if;
  cp1:  copying[self] := copying[self] + 1;
  cp2:  if d > 1 then call Protect(d - 1); end if;
  cp3:  copying[self] := copying[self] - 1;
  ex1:  await holder[me] \in {"none", self}; holder[me] := self || hcount[me] := hcount[me] + 1;
  ex2:  refcount[me] := refcount[me] - 1;
  ex3:  if patched[me] /\ refcount[me] = 0 then table := "absent"; patched[me] := FALSE; end if;
  ex4:  hcount[me] := hcount[me] - 1; if hcount[me] = 0 then holder[me] := "none"; end if;
        engaged[self] := engaged[self] - 1;
  ret:  return;
end procedure;

process T \in Threads
begin
  go: call Protect(Depth);
end process;
end algorithm; *)

\* BEGIN TRANSLATION
CONSTANT defaultInitValue
VARIABLES pc, table, made, cur, holder, hcount, refcount, patched, engaged, 
          copying, stack, d, me, saw

vars == << pc, table, made, cur, holder, hcount, refcount, patched, engaged, 
           copying, stack, d, me, saw >>

ProcSet == (Threads)

Init == (* Global variables *)
        /\ table = Table0
        /\ made = 0
        /\ cur = 0
        /\ holder = [i \in 1..2 |-> "none"]
        /\ hcount = [i \in 1..2 |-> 0]
        /\ refcount = [i \in 1..2 |-> 0]
        /\ patched = [i \in 1..2 |-> FALSE]
        /\ engaged = [t \in Threads |-> 0]
        /\ copying = [t \in Threads |-> 0]
        (* Procedure Protect *)
        /\ d = [ self \in ProcSet |-> defaultInitValue]
        /\ me = [ self \in ProcSet |-> 0]
        /\ saw = [ self \in ProcSet |-> FALSE]
        /\ stack = [self \in ProcSet |-> << >>]
        /\ pc = [self \in ProcSet |-> "go"]

new1(self) == /\ pc[self] = "new1"
              /\ saw' = [saw EXCEPT ![self] = (cur # 0)]
              /\ pc' = [pc EXCEPT ![self] = "new2"]
              /\ UNCHANGED << table, made, cur, holder, hcount, refcount, 
                              patched, engaged, copying, stack, d, me >>

new2(self) == /\ pc[self] = "new2"
              /\ IF ~saw[self]
                    THEN /\ IF RacyNew \/ cur = 0
                               THEN /\ made' = made + 1
                                    /\ cur' = made'
                                    /\ me' = [me EXCEPT ![self] = made']
                               ELSE /\ me' = [me EXCEPT ![self] = cur]
                                    /\ UNCHANGED << made, cur >>
                    ELSE /\ me' = [me EXCEPT ![self] = cur]
                         /\ UNCHANGED << made, cur >>
              /\ pc' = [pc EXCEPT ![self] = "ini"]
              /\ UNCHANGED << table, holder, hcount, refcount, patched, 
                              engaged, copying, stack, d, saw >>

ini(self) == /\ pc[self] = "ini"
             /\ IF ReInit
                   THEN /\ /\ hcount' = [hcount EXCEPT ![me[self]] = 0]
                           /\ holder' = [holder EXCEPT ![me[self]] = "none"]
                        /\ refcount' = [refcount EXCEPT ![me[self]] = 0]
                        /\ patched' = [patched EXCEPT ![me[self]] = FALSE]
                   ELSE /\ TRUE
                        /\ UNCHANGED << holder, hcount, refcount, patched >>
             /\ engaged' = [engaged EXCEPT ![self] = engaged[self] + 1]
             /\ pc' = [pc EXCEPT ![self] = "en1"]
             /\ UNCHANGED << table, made, cur, copying, stack, d, me, saw >>

en1(self) == /\ pc[self] = "en1"
             /\ holder[me[self]] \in {"none", self}
             /\ /\ hcount' = [hcount EXCEPT ![me[self]] = hcount[me[self]] + 1]
                /\ holder' = [holder EXCEPT ![me[self]] = self]
             /\ pc' = [pc EXCEPT ![self] = "en2"]
             /\ UNCHANGED << table, made, cur, refcount, patched, engaged, 
                             copying, stack, d, me, saw >>

en2(self) == /\ pc[self] = "en2"
             /\ refcount' = [refcount EXCEPT ![me[self]] = refcount[me[self]] + 1]
             /\ pc' = [pc EXCEPT ![self] = "en3"]
             /\ UNCHANGED << table, made, cur, holder, hcount, patched, 
                             engaged, copying, stack, d, me, saw >>

en3(self) == /\ pc[self] = "en3"
             /\ IF table = "absent"
                   THEN /\ table' = "ours"
                        /\ patched' = [patched EXCEPT ![me[self]] = TRUE]
                   ELSE /\ TRUE
                        /\ UNCHANGED << table, patched >>
             /\ pc' = [pc EXCEPT ![self] = "en4"]
             /\ UNCHANGED << made, cur, holder, hcount, refcount, engaged, 
                             copying, stack, d, me, saw >>

en4(self) == /\ pc[self] = "en4"
             /\ hcount' = [hcount EXCEPT ![me[self]] = hcount[me[self]] - 1]
             /\ IF hcount'[me[self]] = 0
                   THEN /\ holder' = [holder EXCEPT ![me[self]] = "none"]
                   ELSE /\ TRUE
                        /\ UNCHANGED holder
             /\ pc' = [pc EXCEPT ![self] = "cp1"]
             /\ UNCHANGED << table, made, cur, refcount, patched, engaged, 
                             copying, stack, d, me, saw >>

cp1(self) == /\ pc[self] = "cp1"
             /\ copying' = [copying EXCEPT ![self] = copying[self] + 1]
             /\ pc' = [pc EXCEPT ![self] = "cp2"]
             /\ UNCHANGED << table, made, cur, holder, hcount, refcount, 
                             patched, engaged, stack, d, me, saw >>

cp2(self) == /\ pc[self] = "cp2"
             /\ IF d[self] > 1
                   THEN /\ /\ d' = [d EXCEPT ![self] = d[self] - 1]
                           /\ stack' = [stack EXCEPT ![self] = << [ procedure |->  "Protect",
                                                                    pc        |->  "cp3",
                                                                    me        |->  me[self],
                                                                    saw       |->  saw[self],
                                                                    d         |->  d[self] ] >>
                                                                \o stack[self]]
                        /\ me' = [me EXCEPT ![self] = 0]
                        /\ saw' = [saw EXCEPT ![self] = FALSE]
                        /\ pc' = [pc EXCEPT ![self] = "new1"]
                   ELSE /\ pc' = [pc EXCEPT ![self] = "cp3"]
                        /\ UNCHANGED << stack, d, me, saw >>
             /\ UNCHANGED << table, made, cur, holder, hcount, refcount, 
                             patched, engaged, copying >>

cp3(self) == /\ pc[self] = "cp3"
             /\ copying' = [copying EXCEPT ![self] = copying[self] - 1]
             /\ pc' = [pc EXCEPT ![self] = "ex1"]
             /\ UNCHANGED << table, made, cur, holder, hcount, refcount, 
                             patched, engaged, stack, d, me, saw >>

ex1(self) == /\ pc[self] = "ex1"
             /\ holder[me[self]] \in {"none", self}
             /\ /\ hcount' = [hcount EXCEPT ![me[self]] = hcount[me[self]] + 1]
                /\ holder' = [holder EXCEPT ![me[self]] = self]
             /\ pc' = [pc EXCEPT ![self] = "ex2"]
             /\ UNCHANGED << table, made, cur, refcount, patched, engaged, 
                             copying, stack, d, me, saw >>

ex2(self) == /\ pc[self] = "ex2"
             /\ refcount' = [refcount EXCEPT ![me[self]] = refcount[me[self]] - 1]
             /\ pc' = [pc EXCEPT ![self] = "ex3"]
             /\ UNCHANGED << table, made, cur, holder, hcount, patched, 
                             engaged, copying, stack, d, me, saw >>

ex3(self) == /\ pc[self] = "ex3"
             /\ IF patched[me[self]] /\ refcount[me[self]] = 0
                   THEN /\ table' = "absent"
                        /\ patched' = [patched EXCEPT ![me[self]] = FALSE]
                   ELSE /\ TRUE
                        /\ UNCHANGED << table, patched >>
             /\ pc' = [pc EXCEPT ![self] = "ex4"]
             /\ UNCHANGED << made, cur, holder, hcount, refcount, engaged, 
                             copying, stack, d, me, saw >>

ex4(self) == /\ pc[self] = "ex4"
             /\ hcount' = [hcount EXCEPT ![me[self]] = hcount[me[self]] - 1]
             /\ IF hcount'[me[self]] = 0
                   THEN /\ holder' = [holder EXCEPT ![me[self]] = "none"]
                   ELSE /\ TRUE
                        /\ UNCHANGED holder
             /\ engaged' = [engaged EXCEPT ![self] = engaged[self] - 1]
             /\ pc' = [pc EXCEPT ![self] = "ret"]
             /\ UNCHANGED << table, made, cur, refcount, patched, copying, 
                             stack, d, me, saw >>

ret(self) == /\ pc[self] = "ret"
             /\ pc' = [pc EXCEPT ![self] = Head(stack[self]).pc]
             /\ me' = [me EXCEPT ![self] = Head(stack[self]).me]
             /\ saw' = [saw EXCEPT ![self] = Head(stack[self]).saw]
             /\ d' = [d EXCEPT ![self] = Head(stack[self]).d]
             /\ stack' = [stack EXCEPT ![self] = Tail(stack[self])]
             /\ UNCHANGED << table, made, cur, holder, hcount, refcount, 
                             patched, engaged, copying >>

Protect(self) == new1(self) \/ new2(self) \/ ini(self) \/ en1(self)
                    \/ en2(self) \/ en3(self) \/ en4(self) \/ cp1(self)
                    \/ cp2(self) \/ cp3(self) \/ ex1(self) \/ ex2(self)
                    \/ ex3(self) \/ ex4(self) \/ ret(self)

go(self) == /\ pc[self] = "go"
            /\ /\ d' = [d EXCEPT ![self] = Depth]
               /\ stack' = [stack EXCEPT ![self] = << [ procedure |->  "Protect",
                                                        pc        |->  "Done",
                                                        me        |->  me[self],
                                                        saw       |->  saw[self],
                                                        d         |->  d[self] ] >>
                                                    \o stack[self]]
            /\ me' = [me EXCEPT ![self] = 0]
            /\ saw' = [saw EXCEPT ![self] = FALSE]
            /\ pc' = [pc EXCEPT ![self] = "new1"]
            /\ UNCHANGED << table, made, cur, holder, hcount, refcount, 
                            patched, engaged, copying >>

T(self) == go(self)

(* Allow infinite stuttering to prevent deadlock on termination. *)
Terminating == /\ \A self \in ProcSet: pc[self] = "Done"
               /\ UNCHANGED vars

Next == (\E self \in ProcSet: Protect(self))
           \/ (\E self \in Threads: T(self))
           \/ Terminating

Spec == Init /\ [][Next]_vars

Termination == <>(\A self \in ProcSet: pc[self] = "Done")

\* END TRANSLATION
InvQuiescent == (\A t \in Threads : engaged[t] = 0) => table = Table0
InvSafe      == (\E t \in Threads : copying[t] > 0) => table # "absent"
InvForeign   == Table0 = "foreign" => table = "foreign"
=============================================================================
