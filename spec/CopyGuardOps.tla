---------------------------- MODULE CopyGuardOps ----------------------------
(* Protocol-level specification of what ANY correct implementation may do to the process-global
   copyreg.dispatch_table[ModuleType] around the library's protected deep copies (property C20).

   Observable events, independent of how the guard is coded:
     Call(t)   thread t enters a protected-copy region        (call of protect_via_deepcopy)
     Begin(t)  t starts the actual copy inside that region     (call of copy.deepcopy from the region)
     End(t)    the copy returns or raises
     Ret(t)    t leaves the region                             (return of protect_via_deepcopy, also by exception)
     Install / Restore : the table entry appears / disappears (inferred from the observed table)
   A thread's regions nest (a copy may re-enter the library): engaged[t] regions open, copying[t]
   copies running, copying[t] \in {engaged[t], engaged[t] - 1}.
   s = [table : "absent" | "ours" | "foreign", engaged, copying : [Threads -> Nat]] ; Table0 = table before use. *)
EXTENDS Integers, FiniteSets

Thr(s) == DOMAIN s.engaged
InFlux(s, t) == s.engaged[t] > s.copying[t]          \* inside a region but not inside its copy
OthersIdle(s, t) == \A u \in Thr(s) \ {t} : s.engaged[u] = 0

Enabled(table0, s, a) ==
  LET t == a.t IN
  CASE a.n = "Call"    -> s.engaged[t] = s.copying[t]
    [] a.n = "Begin"   -> s.engaged[t] = s.copying[t] + 1 /\ s.table # "absent"      \* never copy with modules unprotected
    [] a.n = "End"     -> s.copying[t] = s.engaged[t] /\ s.copying[t] > 0
    [] a.n = "Ret"     -> s.engaged[t] = s.copying[t] + 1 /\ (s.engaged[t] = 1 /\ OthersIdle(s, t) => s.table = table0)
    [] a.n = "Install" -> InFlux(s, t) /\ s.table = "absent"
    [] a.n = "Restore" -> InFlux(s, t) /\ s.table = "ours" /\ \A u \in Thr(s) : s.copying[u] = 0

Apply(s, a) ==
  LET t == a.t IN
  CASE a.n = "Call"    -> [s EXCEPT !.engaged[t] = @ + 1]
    [] a.n = "Begin"   -> [s EXCEPT !.copying[t] = @ + 1]
    [] a.n = "End"     -> [s EXCEPT !.copying[t] = @ - 1]
    [] a.n = "Ret"     -> [s EXCEPT !.engaged[t] = @ - 1]
    [] a.n = "Install" -> [s EXCEPT !.table = "ours"]
    [] a.n = "Restore" -> [s EXCEPT !.table = "absent"]

ActNames == {"Call", "Begin", "End", "Ret", "Install", "Restore"}
AllActs(s) == {[n |-> n, t |-> t] : n \in ActNames, t \in Thr(s)}
Succ(table0, s) == {Apply(s, a) : a \in {b \in AllActs(s) : Enabled(table0, s, b)}}

Quiescent(table0, s) == (\A t \in Thr(s) : s.engaged[t] = 0) => s.table = table0
Safe(s)              == (\E t \in Thr(s) : s.copying[t] > 0) => s.table # "absent"
ForeignUntouched(table0, s) == table0 = "foreign" => s.table = "foreign"
WellNested(s)        == \A t \in Thr(s) : s.copying[t] \in {s.engaged[t], s.engaged[t] - 1} /\ s.copying[t] >= 0
=============================================================================
