----------------------------- MODULE J_SpecClass -----------------------------
(* Judge for the spec-class core.  Each event is one real API call on a real instance (receiver built by a
   real history), with value projections, identity tokens, arguments, a peer instance and the class
   defaults observed before and after.  Clause names carry the property they belong to; every check
   keeps the clauses of its own property.
     c01 receiver / arguments unchanged by copy-on-write calls      c05 scalar & top-level helpers = Step
     c02 result shares no mutable object with the receiver          c06 element helpers = plain container op
     c03 managed attributes conform to their type                   c07 frozen instances
     c04 a raising call changes nothing                             c08 defaults / constructor args / peers *)
EXTENDS SpecClassOps, TLC, Json, IOUtils
VARIABLE dummy
Events == ndJsonDeserialize(IOEnv.VERIF_EVENTS)
N == Len(Events)
Scn == JsonDeserialize(IOEnv.VERIF_SCN)

ElemOps == {"with_item", "update_item", "transform_item", "without_item"}
IsCow(a) == "inplace" \in DOMAIN a /\ ~a.inplace
Inter(x, y) == ToSet(x) \cap ToSet(y)

\* attributes an action targets directly (everything else must be carried over untouched)
Touched(CT, c, a) == IF a.op = "reset_top" THEN AttrSet(CT, c)
                     ELSE (IF "attr" \in DOMAIN a THEN {a.attr} ELSE {}) \cup (IF a.op = "update_top" THEN KwNames(a.kw) ELSE {}) \cup (IF a.op \in {"update_repl", "construct"} THEN AttrSet(CT, c) ELSE {})
                          \cup (IF a.op = "transform_top" THEN KwNames(a.kwf) ELSE {})

\* the model is only asked about receivers whose state it can represent: an ill-typed pre-state (left behind by an earlier call, which is
\* where it is reported) has no specified successor
StepJ(e) == IF TypeOKObj(Scn[e.scn], e.pre) THEN Step(Scn[e.scn], e.pre, e.a) ELSE [val |-> e.pre, res |-> {"unspecified"}, same |-> TRUE, ret |-> PMissing]

Failing(e) ==
  LET CT == Scn[e.scn] a == e.a cow == IsCow(a)
      fro == CT[e.pre.c].frozen dncc == CT[e.pre.c].dnc
      unchanged == EqV(e.pre, e.recv_post) /\ e.ids_same
      d == StepJ(e)
      specified == "unspecified" \notin d.res
      fam == IF a.op \in ElemOps THEN "c06" ELSE "c05"
      got == IF e.same \/ a.op = "read" THEN e.recv_post ELSE e.result
  IN
     (IF cow /\ ~fro /\ ~dncc /\ ~unchanged THEN {"c01_receiver_changed"} ELSE {})
  \* (an instance of a do_not_copy=True class is by declaration edited in place by every helper, also when it is the REPLACEMENT handed to update)
  \cup (IF ~e.args_same /\ ~(a.op = "update_repl" /\ dncc) THEN {"c01_argument_changed"} ELSE {})
  \* (identity transforms hand the receiver's own object back: excluded by the property's quantifier)
  \cup (IF cow /\ ~dncc /\ e.res = "ok" /\ ~e.same /\ e.result_kind = "obj" /\ ~("f" \in DOMAIN a /\ a.f = "same")
           /\ ~(Inter(e.tok_res, e.tok_recv) \subseteq ToSet(e.tok_args) \cup ToSet(e.tok_dnc)) THEN {"c02_shared_mutable_state"} ELSE {})
  \* attributes declared do_not_copy are carried into every copy by identity
  \cup (IF cow /\ e.res = "ok" /\ ~e.same /\ e.result_kind = "obj" /\ "dnc_carried" \in DOMAIN e
           /\ \E j \in 1..Len(e.dnc_carried) : e.dnc_carried[j].n \notin Touched(CT, e.pre.c, a) /\ ~e.dnc_carried[j].same THEN {"c02_do_not_copy_attribute_duplicated"} ELSE {})
  \* a copy-on-write call that changes something must not hand back the receiver itself
  \cup (IF cow /\ ~dncc /\ ~fro /\ specified /\ d.res = {"ok"} /\ ~d.same /\ e.res = "ok" /\ e.same THEN {"c02_result_is_receiver"} ELSE {})
  \cup (IF ~TypeOKObj(CT, e.recv_post) \/ (e.result_kind = "obj" /\ e.result.c \in DOMAIN CT /\ ~TypeOKObj(CT, e.result))
        THEN {"c03_ill_typed_value_stored"} ELSE {})
  \cup (IF e.res # "ok" /\ ~(unchanged /\ e.args_same) THEN {"c04_partial_commit"} ELSE {})
  \cup (IF specified /\ e.res \notin d.res THEN {fam \o "_outcome"} ELSE {})
  \cup (IF specified /\ a.op # "read" /\ e.res = "ok" /\ "ok" \in d.res /\ d.val.t = "obj"
           /\ (e.result_kind # "obj" \/ ~EqV(got, d.val)) THEN {fam \o "_state"} ELSE {})
  \cup (IF specified /\ a.op = "read" /\ e.res = "ok" /\ "ok" \in d.res /\ ~EqV(e.recv_post, d.val) THEN {"c11_read_changed_state_wrongly"} ELSE {})
  \cup (IF specified /\ a.op # "read" /\ e.res = "ok" /\ d.res = {"ok"} /\ e.same # d.same /\ ~(fro /\ cow) THEN {fam \o "_returns_wrong_object"} ELSE {})
  \* (a read may fill a cache of a frozen instance: the attributes and every other cache entry stay as they were)
  \cup (IF fro /\ (IF a.op = "read" /\ e.res = "ok" THEN ~(EqV([e.pre EXCEPT !.x = e.recv_post.x], e.recv_post) /\ e.ids_same
                                                           /\ \A p \in DOMAIN e.pre.x : e.pre.x[p].t = "missing" \/ EqV(e.pre.x[p], e.recv_post.x[p]))
             ELSE ~unchanged) THEN {"c07_frozen_instance_changed"} ELSE {})
  \cup (IF fro /\ ~cow /\ specified /\ "ok" \notin d.res /\ e.res = "ok" THEN {"c07_inplace_on_frozen_not_rejected"} ELSE {})
  \cup (IF fro /\ cow /\ specified /\ d.res = {"ok"} /\ ~d.same /\ e.res = "ok" /\ e.same THEN {"c07_copy_returns_receiver"} ELSE {})
  \* C11: no cache entry of the observed object differs from the getter on its observed state (override ghost taken from the model)
  \cup (IF specified /\ e.res = "ok" /\ d.res = {"ok"} /\ d.val.t = "obj" /\ (e.same \/ e.result_kind = "obj")
           /\ ~Fresh(CT, [t |-> "obj", c |-> got.c, a |-> got.a, x |-> got.x, ov |-> d.val.ov]) THEN {"c11_stale_derived_value"} ELSE {})
  \cup (IF a.op = "read" /\ specified /\ e.res = "ok" /\ d.res = {"ok"} /\ ~EqV(e.result, d.ret) THEN {"c11_read_returns_wrong_value"} ELSE {})
  \cup (IF ~e.peer_same THEN {"c08_peer_changed"} ELSE {})
  \cup (IF ~e.dflt_same THEN {"c08_class_default_changed"} ELSE {})
  \cup (IF Inter(e.tok_recv \o e.tok_res, e.tok_dflt) # {} THEN {"c08_shares_class_default"} ELSE {})

F == [i \in 1..N |-> Failing(Events[i])]
BadIdx == {i \in 1..N : F[i] # {}}
Bad == UNION {{[i |-> i, c |-> c, d |-> ToString(StepJ(Events[i]).res)] : c \in F[i]} : i \in BadIdx}
Cnt(P(_)) == Cardinality({i \in 1..N : P(Events[i])})
Ante == [cow |-> Cnt(LAMBDA e : IsCow(e.a)), raised |-> Cnt(LAMBDA e : e.res # "ok"),
         specified |-> Cnt(LAMBDA e : "unspecified" \notin StepJ(e).res),
         changed |-> Cnt(LAMBDA e : e.res = "ok" /\ e.result_kind = "obj" /\ ~EqV(e.pre, e.result)),
         element |-> Cnt(LAMBDA e : e.a.op \in ElemOps), inplace |-> Cnt(LAMBDA e : ~IsCow(e.a))]
ASSUME JsonSerialize(IOEnv.VERIF_OUT, <<[bad |-> SetToSeq(Bad), n |-> N, ante |-> Ante]>>)
Init == dummy = 0
Next == UNCHANGED dummy
=============================================================================
