---------------------------- MODULE J_Construction ----------------------------
(* Judge for C09: observed construction == Expected(H, class, keywords). *)
EXTENDS SpecClassMeta, TLC, Json, IOUtils
VARIABLE dummy
Events == ndJsonDeserialize(IOEnv.VERIF_EVENTS)
N == Len(Events)
HS == JsonDeserialize(IOEnv.VERIF_SCN)
Failing(e) ==
  LET H == HS[e.h] x == Expected(H, e.c, e.kws) IN
     (IF x.res = "ok" /\ e.res # "ok" THEN {"construction_rejected"} ELSE {})
  \cup (IF x.res # "ok" /\ e.res = "ok" THEN {"construction_should_raise_TypeError"} ELSE {})
  \cup (IF x.res # "ok" /\ e.res \notin {"ok", "TypeError"} THEN {"wrong_exception_class"} ELSE {})
  \cup (IF x.res = "ok" /\ e.res = "ok" /\ (DOMAIN e.attrs # DOMAIN x.attrs \/ \E a \in DOMAIN x.attrs : a \in DOMAIN e.attrs /\ ~EqV(e.attrs[a], x.attrs[a]))
        THEN {"attribute_values"} ELSE {})
  \cup (IF x.res = "ok" /\ e.res = "ok" /\ e.posts # x.posts THEN {"post_init_count"} ELSE {})
  \cup (IF x.res = "ok" /\ e.res = "ok" /\ x.posts = 1 /\ e.posts = 1 /\ e.post_owners[1] # PostOwner(H, e.c) THEN {"post_init_wrong_hook"} ELSE {})
  \cup (IF e.res = "ok" /\ ~e.post_saw_final THEN {"post_init_before_attributes_set"} ELSE {})
F == [i \in 1..N |-> Failing(Events[i])]
BadIdx == {i \in 1..N : F[i] # {}}
Bad == UNION {{[i |-> i, c |-> c, d |-> ToString(Expected(HS[Events[i].h], Events[i].c, Events[i].kws))] : c \in F[i]} : i \in BadIdx}
Ante == [ok |-> Cardinality({i \in 1..N : Events[i].res = "ok"}), rejected |-> Cardinality({i \in 1..N : Events[i].res # "ok"}),
         posts |-> Cardinality({i \in 1..N : Events[i].posts > 0}), positional |-> Cardinality({i \in 1..N : Events[i].positional_key})]
ASSUME JsonSerialize(IOEnv.VERIF_OUT, <<[bad |-> SetToSeq(Bad), n |-> N, ante |-> Ante]>>)
Init == dummy = 0
Next == UNCHANGED dummy
=============================================================================
