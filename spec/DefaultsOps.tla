----------------------------- MODULE DefaultsOps -----------------------------
(* Declarative default rule (C08, C09): the default of attribute a for an instance of class c is the one
   declared nearest along c's MRO -- plain value, default factory result, or an overriding class attribute of a
   spec or PLAIN subclass -- and the attribute is missing when no class on the MRO declares one.
   DT[c] = [mro : Seq(class), body : [attr -> [has : BOOLEAN, v : value]]]   (body = what c's own class body declares) *)
EXTENDS PyVal
RECURSIVE Nearest(_, _, _, _)
Nearest(DT, mro, a, i) ==
  IF i > Len(mro) THEN PMissing
  ELSE IF a \in DOMAIN DT[mro[i]].body /\ DT[mro[i]].body[a].has THEN DT[mro[i]].body[a].v
  ELSE Nearest(DT, mro, a, i + 1)
NearestDefault(DT, c, a) == Nearest(DT, DT[c].mro, a, 1)
=============================================================================
