------------------------------ MODULE CopyGuard ------------------------------
EXTENDS CopyGuardOps, TLC
CONSTANTS Threads, Table0, MaxDepth
VARIABLE s
Init == s = [table |-> Table0, engaged |-> [t \in Threads |-> 0], copying |-> [t \in Threads |-> 0]]
Next == \E a \in AllActs(s) : Enabled(Table0, s, a) /\ Apply(s, a).engaged[a.t] <= MaxDepth /\ s' = Apply(s, a)
Spec == Init /\ [][Next]_s
InvQuiescent == Quiescent(Table0, s)
InvSafe      == Safe(s)
InvForeign   == ForeignUntouched(Table0, s)
InvNested    == WellNested(s)
\* the protocol can always finish: from every state the all-idle state is reachable (no stuck region)
=============================================================================
