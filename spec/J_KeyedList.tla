---------------------------- MODULE J_KeyedList ----------------------------
(* Judge for C13: evaluates the clauses of the property, with the operators of KeyedListOps, on
   events recorded from the real spec_classes.types.KeyedList.  One-shot evaluation (ASSUME). *)
EXTENDS KeyedListOps, TLC, Json, IOUtils, SequencesExt
VARIABLE dummy

Events == ndJsonDeserialize(IOEnv.VERIF_EVENTS)
N == Len(Events)
DevNames == {"setitem_delete_first", "extend_stepwise", "reverse_by_swaps"}

WellFormed(l) == \A j \in 1..Len(l) : l[j].bad = "no"
IndexCoherent(p) ==
  /\ p.len = Len(p.lst)
  /\ ToSet(p.keys) = KeysOf(p.lst)
  /\ Len(p.keys) = Cardinality(KeysOf(p.lst))
  /\ {<<p.items[j].k, p.items[j].v>> : j \in 1..Len(p.items)} = KeyPairs(p.lst)
  /\ Len(p.items) = Len(p.keys)

OpFailing(e) ==
  LET d == Step(e.cfg, e.pre.lst, e.a) IN
     (IF ~WellFormed(e.post.lst) THEN {"wellformed"} ELSE {})
  \cup (IF WellFormed(e.post.lst) /\ e.post.lst # d.lst THEN {"listlike_post"} ELSE {})
  \cup (IF e.res \notin d.res THEN {"listlike_outcome"} ELSE {})
  \cup (IF e.res = "ok" /\ "ok" \in d.res /\ e.ret # d.ret THEN {"listlike_return"} ELSE {})
  \cup (IF e.res # "ok" /\ (e.post.lst # e.pre.lst \/ ToSet(e.post.keys) # ToSet(e.pre.keys)) THEN {"atomic"} ELSE {})
  \cup (IF WellFormed(e.post.lst) /\ HasDup(e.post.lst) THEN {"unique"} ELSE {})
  \cup (IF WellFormed(e.post.lst) /\ ~IndexCoherent(e.post) THEN {"coherent"} ELSE {})

\* which named deviation of the operational model reproduces the observed (post, outcome), if any
ExplainedBy(e) ==
  {dv \in DevNames : LET o == OpStep({dv}, e.cfg, S(e.pre.lst, IdxOf(e.pre.lst)), e.a)
                    IN o.s.lst = e.post.lst /\ o.res = e.res}

All(seq, P(_)) == \A j \in 1..Len(seq) : P(seq[j])
ReadsFailing(e) ==
  LET l == e.post.lst r == e.reads IN
  IF ~WellFormed(l) \/ HasDup(l) THEN {} ELSE
     (IF ~All(r.getidx, LAMBDA x : LET g == GetIdx(l, x.i) IN g.res = x.res /\ g.v = x.v) THEN {"read_index"} ELSE {})
  \cup (IF ~All(r.getkey, LAMBDA x : LET g == GetKey(l, x.k) IN g.res = x.res /\ g.v = x.v) THEN {"read_key"} ELSE {})
  \cup (IF ~All(r.get, LAMBDA x : GetKey(l, x.k).v = x.v) THEN {"read_get"} ELSE {})
  \cup (IF ~All(r.ifk, LAMBDA x : LET g == IndexForKey(l, x.k) IN g.res = x.res /\ g.v = x.v) THEN {"read_index_for_key"} ELSE {})
  \cup (IF ~All(r.inkey, LAMBDA x : x.v = (x.k \in KeysOf(l))) THEN {"read_in_key"} ELSE {})
  \cup (IF ~All(r.initem, LAMBDA x : x.v = Occurs(l, x.x)) THEN {"read_in_item"} ELSE {})
  \cup (IF ~All(r.count, LAMBDA x : x.v = Count(l, x.x)) THEN {"read_count"} ELSE {})
  \cup (IF ~All(r.index, LAMBDA x : LET g == IndexOf(l, x.x) IN g.res = x.res /\ g.v = x.v) THEN {"read_index_of"} ELSE {})
  \cup (IF ~All(r.slices, LAMBDA x : x.kl /\ x.v = Slice(l, x.lo, x.hi)) THEN {"read_slice"} ELSE {})
  \cup (IF r.eq # <<TRUE, FALSE, FALSE, TRUE>> THEN {"read_eq"} ELSE {})
  \cup (IF ~IndexCoherent(e.post) THEN {"coherent"} ELSE {})

Failing(e) == IF e.kind = "op" THEN OpFailing(e) ELSE ReadsFailing(e)

F == [i \in 1..N |-> Failing(Events[i])]
BadIdx == {i \in 1..N : F[i] # {}}
Bad == UNION {{[i |-> i, c |-> c,
                d |-> IF Events[i].kind = "op" THEN ToString(ExplainedBy(Events[i])) ELSE ""] : c \in F[i]} : i \in BadIdx}
Ante == [atomic |-> Cardinality({i \in 1..N : Events[i].kind = "op" /\ Events[i].res # "ok"}),
         duplicate_rule |-> Cardinality({i \in 1..N : Events[i].kind = "op" /\ Events[i].res = "ValueError"}),
         type_rule |-> Cardinality({i \in 1..N : Events[i].kind = "op" /\ Events[i].res = "TypeError"}),
         mutated |-> Cardinality({i \in 1..N : Events[i].kind = "op" /\ Events[i].post.lst # Events[i].pre.lst}),
         reads |-> Cardinality({i \in 1..N : Events[i].kind = "reads"})]

ASSUME JsonSerialize(IOEnv.VERIF_OUT, <<[bad |-> SetToSeq(Bad), n |-> N, ante |-> Ante]>>)

Init == dummy = 0
Next == UNCHANGED dummy
=============================================================================
