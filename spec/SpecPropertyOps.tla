--------------------------- MODULE SpecPropertyOps ---------------------------
(* Reference semantics of spec_property and classproperty (property C12).

   spec_property:  cfg = [ov, cache, fset, fdel : BOOLEAN, host : "plain" | "unmanaged" | "managed" | "items"]
     operational state  st = [entry, under, backing]
        entry   : the instance-dict slot named after the property (override or cache) or N
        under   : the state the getter reads (0, 1, 2)
        backing : a slot only the user-written setter/deleter touch (the getter never reads it)
     declarative ghost state  g = [ov, ca] : the user override / the value cached since the last deletion
   classproperty:  cfg = [cache, per, ov, fset, fdel : BOOLEAN]; state [c (cache by key), under, backing]
   Values are tagged records so TLC never compares an int with a string. *)
EXTENDS Integers, Sequences, FiniteSets

N     == [t |-> "none"]
I(n)  == [t |-> "int", i |-> n]
S(s)  == [t |-> "str", s |-> s]
PN    == [t |-> "pynone"]      \* the Python value None as an override / getter result (N is "nothing stored")
EL    == [t |-> "elist"]       \* the empty list (host "items": None assigned to a collection-typed attribute becomes an empty collection)

\* ------------------------------------------------------------------ spec_property
\* host "items": the managed annotation is List[int] with an ELEMENT preparer only (no _prepare_p); the abstract value n stands for the list [n]
Managed(cfg)  == cfg.host \in {"managed", "items"}
Getter(u)     == IF u = 2 THEN S("bad") ELSE I(10 + u)            \* under = 2 makes the getter ill-typed
Prep(cfg, v)  == IF cfg.host = "items" /\ v = PN THEN EL ELSE IF Managed(cfg) /\ v.t = "int" THEN I(v.i + 100) ELSE v   \* _prepare_p / _prepare_p_item on a managed host
Conf(cfg, v)  == ~Managed(cfg) \/ v.t = "int" \/ (cfg.host = "items" /\ v = EL)   \* declared type of the managed attribute: int (List[int] on host "items")
Res(st, res, val) == [st |-> st, res |-> res, val |-> val]

SPRead(Dev, cfg, st) ==
  IF (cfg.ov \/ cfg.cache) /\ st.entry # N THEN Res(st, "ok", st.entry)
  ELSE LET v == Prep(cfg, Getter(st.under)) IN
       IF ~Conf(cfg, v) THEN Res(st, "ValueError", N)
       ELSE Res(IF cfg.cache THEN [st EXCEPT !.entry = v] ELSE st, "ok", v)

SPAssign(Dev, cfg, st, v) ==
  LET pv == Prep(cfg, v) IN
  IF ~Conf(cfg, pv) THEN Res(st, IF cfg.host = "items" THEN "ValueError" ELSE "TypeError", N)   \* (an ill-typed ELEMENT is a ValueError)                 \* spec-class assignment is type checked first
  ELSE IF cfg.fset THEN Res([st EXCEPT !.backing = pv], "ok", N)   \* only the user's setter runs
  ELSE IF cfg.ov \/ "assign_unguarded" \in Dev THEN Res([st EXCEPT !.entry = pv], "ok", N)
  ELSE Res(st, "AttributeError", N)

SPDelete(Dev, cfg, st) ==
  IF cfg.fdel THEN Res([st EXCEPT !.backing = N], "ok", N)         \* only the user's deleter runs
  ELSE IF (cfg.ov \/ cfg.cache) /\ st.entry # N
       THEN Res(IF "delete_keeps_cache" \in Dev /\ ~cfg.ov THEN st ELSE [st EXCEPT !.entry = N], "ok", N)
  ELSE Res(st, "AttributeError", N)

\* frozen host (a frozen spec class): every mutator is refused and changes nothing; reading (and thereby filling the cache) is fine.
\* cfg.initov: the instance was constructed with a value for the (managed) property, i.e. it starts out overridden.
IsFrozen(cfg) == "frozen" \in DOMAIN cfg /\ cfg.frozen
InitOv(cfg)   == "initov" \in DOMAIN cfg /\ cfg.initov
SPInit(cfg)   == [entry |-> IF InitOv(cfg) THEN Prep(cfg, I(5)) ELSE N, under |-> 0, backing |-> N]
GInit(cfg)    == [ov |-> IF InitOv(cfg) THEN Prep(cfg, I(5)) ELSE N, ca |-> N]
SPStep(Dev, cfg, st, a) ==
  IF IsFrozen(cfg) /\ a.op # "read" /\ "frozen_delete_unguarded" \notin Dev THEN Res(st, "FrozenInstanceError", N) ELSE
  CASE a.op = "read"   -> SPRead(Dev, cfg, st)
    [] a.op = "assign" -> SPAssign(Dev, cfg, st, a.v)
    [] a.op = "delete" -> SPDelete(Dev, cfg, st)
    [] a.op = "under"  -> Res([st EXCEPT !.under = a.u], "ok", N)

\* declarative protocol: what a read must return given override / cache-since-last-deletion / getter
Priority(cfg, g, under) ==
  IF g.ov # N THEN [res |-> "ok", val |-> g.ov]
  ELSE IF cfg.cache /\ g.ca # N THEN [res |-> "ok", val |-> g.ca]
  ELSE LET v == Prep(cfg, Getter(under)) IN IF Conf(cfg, v) THEN [res |-> "ok", val |-> v] ELSE [res |-> "ValueError", val |-> N]
\* ghost update from the observable outcome of an action
Ghost(cfg, g, a, res, val) ==
  CASE a.op = "read"   -> IF res = "ok" /\ cfg.cache /\ g.ov = N /\ g.ca = N THEN [g EXCEPT !.ca = val] ELSE g
    [] a.op = "assign" -> IF res = "ok" /\ ~cfg.fset THEN [g EXCEPT !.ov = Prep(cfg, a.v)] ELSE g
    [] a.op = "delete" -> IF res = "ok" /\ ~cfg.fdel THEN [ov |-> N, ca |-> N] ELSE g
    [] a.op = "under"  -> g
MayAssign(cfg) == (cfg.ov \/ cfg.fset) /\ ~IsFrozen(cfg)
\* deletion must raise when there is neither override nor cache (and no user deleter)
MustRaiseOnDelete(cfg, g) == ~cfg.fdel /\ g.ov = N /\ (g.ca = N \/ ~cfg.cache)

\* ------------------------------------------------------------------ classproperty over Base <- Mid <- Leaf
Classes == <<"Base", "Mid", "Leaf">>
Tag(c)  == CASE c = "Base" -> 1 [] c = "Mid" -> 2 [] c = "Leaf" -> 3
CGetter(c, u) == IF u = 2 THEN PN ELSE I(Tag(c) * 10 + u)        \* under = 2: the getter returns None
CKey(cfg, c)  == IF cfg.per THEN c ELSE "shared"
CPRead(cfg, st, c) ==
  LET k == CKey(cfg, c) IN
  IF st.c[k] # N THEN Res(st, "ok", st.c[k])
  ELSE LET v == CGetter(c, st.under) IN Res(IF cfg.cache THEN [st EXCEPT !.c[k] = v] ELSE st, "ok", v)
CPAssign(cfg, st, c, v) ==
  IF cfg.fset THEN Res([st EXCEPT !.backing = v], "ok", N)
  ELSE IF cfg.ov THEN Res([st EXCEPT !.c[CKey(cfg, c)] = v], "ok", N)
  ELSE Res(st, "AttributeError", N)
CPDelete(cfg, st, c) ==
  IF cfg.fdel THEN Res([st EXCEPT !.backing = N], "ok", N)
  ELSE IF st.c[CKey(cfg, c)] # N THEN Res([st EXCEPT !.c[CKey(cfg, c)] = N], "ok", N)
  ELSE Res(st, "AttributeError", N)
CPStep(cfg, st, a) ==
  CASE a.op = "read"   -> CPRead(cfg, st, a.c)          \* a.via \in {"class", "instance"} does not matter
    [] a.op = "assign" -> CPAssign(cfg, st, a.c, a.v)
    [] a.op = "delete" -> CPDelete(cfg, st, a.c)
    [] a.op = "under"  -> Res([st EXCEPT !.under = a.u], "ok", N)
CPKeys == {"shared", "Base", "Mid", "Leaf"}
CPInit == [c |-> [k \in CPKeys |-> N], under |-> 0, backing |-> N]
=============================================================================
