-------------------------------- MODULE Alias --------------------------------
(* Two-variable machine (target, local override) for every alias configuration; C18. *)
EXTENDS AliasOps, TLC, Json, IOUtils, SequencesExt
CONSTANTS Dev
VARIABLES cfg, st, last
vars == <<cfg, st, last>>
View == <<cfg, st>>
\* (the path shapes that continue after a key / have a dotted key are not crossed with DeprecatedAlias: the warning is independent of the path)
Cfgs == {c \in [pt : BOOLEAN, tr : BOOLEAN, fb : {"none", "imm", "mut"}, path : {"t", "o.t", "d[k]", "o.d[k]", "e[k].t", "e[q].t", "e[k.k]", "e[k.q]"}, host : {"plain", "spec"}, dep : BOOLEAN] :
            c.path \in {"e[k].t", "e[q].t", "e[k.k]", "e[k.q]"} => ~c.dep}
Acts == {[op |-> o] : o \in {"read_alias", "delete_alias", "read_target", "delete_target", "deepcopy"}}
        \cup {[op |-> "write_alias", v |-> v] : v \in {I(5), S("s"), PN, I(1), I(2), I(7)}}          \* I(1) / I(2) / I(7): what the alias currently reads as (target, transformed target, fallback) \cup {[op |-> "write_target", v |-> I(3)]}
        \cup {[op |-> "cow_alias", v |-> I(6)], [op |-> "cow_target", v |-> I(4)]}
Enabled(c, a) == /\ (a.op = "cow_alias" => c.host = "spec")
                 /\ (a.op = "write_alias" /\ a.v = PN => ~c.pt)      \* None only as a LOCAL override (a None target under a transform is outside the model)
                 /\ (a.op = "cow_target" => c.host = "spec" /\ c.path = "t")
Init == cfg \in Cfgs /\ st = [target |-> I(1), ov |-> N] /\ last = [a |-> [op |-> "init"], res |-> {"ok"}, val |-> N]
Next == \E a \in Acts : Enabled(cfg, a) /\ LET r == Step(Dev, cfg, st, a) IN st' = r.st /\ cfg' = cfg /\ last' = [a |-> a, res |-> r.res, val |-> r.val]
Spec == Init /\ [][Next]_vars
\* a local assignment shadows the target without modifying it; deleting it restores the live view
PropShadow == [][~cfg.pt /\ last'.a.op \in {"write_alias", "delete_alias", "cow_alias"} => st'.target = st.target]_vars
PropLive   == [][last'.a.op = "read_alias" /\ (cfg.pt \/ st.ov = N) /\ st.target # N => last'.val = T(cfg, st.target)]_vars
PropPassthrough == [][cfg.pt => st'.ov = N /\ (last'.a.op = "write_alias" /\ "ok" \in last'.res => st'.target = last'.a.v)]_vars
PropMissing == [][last'.a.op = "read_alias" /\ st.target = N /\ (cfg.pt \/ st.ov = N) =>
                    IF cfg.fb = "none" THEN last'.res = {"AttributeError"} ELSE last'.val = Fallback(cfg)]_vars
PropReadsPure == [][last'.a.op \in {"read_alias", "read_target", "deepcopy"} => st' = st]_vars
ASSUME IF "VERIF_ACTS" \in DOMAIN IOEnv THEN JsonSerialize(IOEnv.VERIF_ACTS, SetToSeq(Acts)) ELSE TRUE
=============================================================================
