----------------------------- MODULE KeyedSetOps -----------------------------
(* Reference semantics of spec_classes.types.keyed.KeyedSet (property C14).

   A KeyedSet is an insertion-ordered mapping  key -> most recently added item with that key.
     s    : sequence of items [k, p, bad] with pairwise distinct keys (dict order)
     cfg  : [typed |-> BOOLEAN, enforce |-> BOOLEAN]       enforce = enforce_item_equivalence
     arg  : [kind |-> "key", k |-> key]  or  [kind |-> "item", x |-> item]    (item-or-key arguments)
     o    : other operand [kind |-> "kset" | "set", items |-> seq, enforce |-> BOOLEAN]
   Declarative map formulation (M*, Alg) and the operational formulation shaped like the code
   (dict probes in the order the implementation makes them, mixin-derived operators) are both given;
   KeyedSet.tla model-checks that they agree.  Dev switches single steps to pre-fix behaviour. *)
EXTENDS Integers, Sequences, FiniteSets

KeysOf(s)     == {s[j].k : j \in 1..Len(s)}
ItemsOf(s)    == {s[j] : j \in 1..Len(s)}
HasDup(s)     == \E i, j \in 1..Len(s) : i # j /\ s[i].k = s[j].k
Pos(s, k)     == CHOOSE j \in 1..Len(s) : s[j].k = k
At(s, k)      == s[Pos(s, k)]
Without(s, k) == SelectSeq(s, LAMBDA x : x.k # k)
Put(s, x)     == IF x.k \in KeysOf(s) THEN [s EXCEPT ![Pos(s, x.k)] = x] ELSE Append(s, x)
IsBad(cfg, x) == cfg.typed /\ x.bad # "no"
RECURSIVE PutAll(_, _)
PutAll(s, xs) == IF xs = <<>> THEN s ELSE PutAll(Put(s, Head(xs)), Tail(xs))
RECURSIVE DropKeys(_, _)
DropKeys(s, ks) == SelectSeq(s, LAMBDA x : x.k \notin ks)

\* ----------------------------------------------------------------- item-or-key resolution
(* documented order: first as a key, then as an item through its key; with enforce the stored item
   must also be equal to the given one *)
ContainsArg(cfg, s, arg) ==
  IF arg.kind = "key" THEN arg.k \in KeysOf(s)
  ELSE arg.x.k \in KeysOf(s) /\ (cfg.enforce => At(s, arg.x.k) = arg.x)
ArgKey(arg) == IF arg.kind = "key" THEN arg.k ELSE arg.x.k

None == <<>>
R(s, res, ret) == [s |-> s, res |-> res, ret |-> ret]

\* ----------------------------------------------------------------- mutators and reads
Step(cfg, s, a) ==
  CASE a.op = "add" ->
         IF IsBad(cfg, a.x) THEN R(s, {"TypeError"}, None)
         ELSE IF cfg.enforce /\ a.x.k \in KeysOf(s) /\ At(s, a.x.k) # a.x THEN R(s, {"ValueError"}, None)
         ELSE R(Put(s, a.x), {"ok"}, None)
    [] a.op = "discard" -> R(IF ContainsArg(cfg, s, a.arg) THEN Without(s, ArgKey(a.arg)) ELSE s, {"ok"}, None)
    [] a.op = "remove"  -> IF ContainsArg(cfg, s, a.arg) THEN R(Without(s, ArgKey(a.arg)), {"ok"}, None) ELSE R(s, {"KeyError"}, None)
    [] a.op = "pop"     -> IF s = <<>> THEN R(s, {"KeyError"}, None) ELSE R(Tail(s), {"ok"}, <<Head(s)>>)
    [] a.op = "clear"   -> R(<<>>, {"ok"}, None)
    [] a.op = "getitem" -> IF ArgKey(a.arg) \in KeysOf(s) THEN R(s, {"ok"}, <<At(s, ArgKey(a.arg))>>) ELSE R(s, {"KeyError"}, None)
    [] a.op = "get"     -> R(s, {"ok"}, IF a.k \in KeysOf(s) THEN <<At(s, a.k)>> ELSE None)
    [] a.op = "contains" -> R(s, {"ok"}, <<ContainsArg(cfg, s, a.arg)>>)

\* ----------------------------------------------------------------- set algebra on keys
Alg(op, A, B) == CASE op = "or" -> A \cup B [] op = "and" -> A \cap B [] op = "sub" -> A \ B [] op = "xor" -> (A \ B) \cup (B \ A)
\* items under common keys are equal: then "by key" and "by item" readings coincide
Aligned(s, o)  == \A k \in KeysOf(s) \cap KeysOf(o.items) : At(s, k) = At(o.items, k)
\* when is the key-algebra reading the only one?  (see DESIGN.md C14: with enforce, or against a
\* built-in set, membership is decided on whole items, so unaligned operands are left unspecified)
Strict(cfg, s, o) == Aligned(s, o) \/ (o.kind = "kset" /\ ~cfg.enforce /\ ~o.enforce)
\* a well-formed result of a binary operator: one item per key, each item taken from an operand
ResultOK(op, s, o, r) ==
  /\ ~HasDup(r)
  /\ ItemsOf(r) \subseteq ItemsOf(s) \cup ItemsOf(o.items)
ResultStrict(op, s, o, r) == KeysOf(r) = Alg(op, KeysOf(s), KeysOf(o.items))

\* comparisons by keys
Cmp(op, A, B) == CASE op = "le" -> A \subseteq B [] op = "lt" -> A \subseteq B /\ A # B [] op = "ge" -> B \subseteq A
                   [] op = "gt" -> B \subseteq A /\ A # B [] op = "isdisjoint" -> A \cap B = {}
                   [] op = "eq" -> A = B

\* in-place operators: |= adds every item of the operand (its item wins), &=, -=, ^= by key
IStep(cfg, s, a) ==
  LET o == a.o ko == KeysOf(o.items) IN
  CASE a.op = "ior"  -> PutAll(s, o.items)
    [] a.op = "iand" -> DropKeys(s, KeysOf(s) \ ko)
    [] a.op = "isub" -> DropKeys(s, ko)
    [] a.op = "ixor" -> PutAll(DropKeys(s, ko), SelectSeq(o.items, LAMBDA x : x.k \notin KeysOf(s)))
\* conflicts that enforce_item_equivalence must reject
Conflict(s, xs) == \E j \in 1..Len(xs) : xs[j].k \in KeysOf(s) /\ At(s, xs[j].k) # xs[j]

\* ----------------------------------------------------------------- operational model (dict probes as coded)
(* d = the dict as an ordered sequence; probes:  "v in dict" for a raw argument, then key(v). *)
OpContains(cfg, d, arg) ==
  IF arg.kind = "key" /\ arg.k \in KeysOf(d) THEN TRUE
  ELSE IF arg.kind = "item" /\ arg.x.k \in KeysOf(d) THEN (~cfg.enforce \/ arg.x = At(d, arg.x.k))
  ELSE FALSE
OpDiscard(cfg, d, arg) ==
  IF arg.kind = "key" THEN (IF arg.k \in KeysOf(d) THEN Without(d, arg.k) ELSE d)
  ELSE IF arg.x.k \in KeysOf(d) /\ (~cfg.enforce \/ arg.x = At(d, arg.x.k)) THEN Without(d, arg.x.k) ELSE d
OpAdd(cfg, d, x) ==
  IF IsBad(cfg, x) THEN [d |-> d, res |-> "TypeError"]
  ELSE IF cfg.enforce /\ x.k \in KeysOf(d) /\ At(d, x.k) # x THEN [d |-> d, res |-> "ValueError"]
  ELSE [d |-> Put(d, x), res |-> "ok"]
AsArg(x) == [kind |-> "item", x |-> x]
\* membership of an item in the other operand, as the mixins evaluate `value in other`
InOther(o, x) == IF o.kind = "set" THEN x \in ItemsOf(o.items) ELSE OpContains([typed |-> FALSE, enforce |-> o.enforce], o.items, AsArg(x))
\* the mixin-derived binary operators; "from_iterable_drops_config" is the pre-fix _from_iterable
\* (result built by cls(it): no key function => every item its own key => nothing ever replaced)
FromIterable(Dev, xs) == IF "from_iterable_drops_config" \in Dev THEN xs ELSE PutAll(<<>>, xs)
OpBin(Dev, cfg, d, op, o) ==
  CASE op = "or"  -> FromIterable(Dev, d \o o.items)
    [] op = "and" -> FromIterable(Dev, SelectSeq(o.items, LAMBDA x : OpContains(cfg, d, AsArg(x))))
    [] op = "sub" -> FromIterable(Dev, SelectSeq(d, LAMBDA x : ~InOther(o, x)))
    [] op = "xor" -> LET oo == [kind |-> "kset", items |-> FromIterable(Dev, o.items), enforce |-> IF o.kind = "kset" THEN o.enforce ELSE cfg.enforce]
                         a  == SelectSeq(d, LAMBDA x : ~InOther(IF o.kind = "kset" THEN o ELSE oo, x))
                         b  == SelectSeq(oo.items, LAMBDA x : ~OpContains(cfg, d, AsArg(x)))
                     IN FromIterable(Dev, a \o b)
=============================================================================
