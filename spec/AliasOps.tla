------------------------------ MODULE AliasOps ------------------------------
(* Reference semantics of spec_classes.types.Alias / DeprecatedAlias (property C18).
   cfg = [pt (passthrough), tr (transform), fb ("none" | "imm" | "mut"), path, host ("plain" | "spec"), dep]
   st  = [target, ov] : the current value of the aliased target (N = missing) and the local override.
   The path shape (t, o.t, d["k"], o.d["k"]) does not change the abstract semantics: that is the claim. *)
EXTENDS Integers, Sequences, FiniteSets
N     == [t |-> "none"]
I(n)  == [t |-> "int", i |-> n]
S(s)  == [t |-> "str", s |-> s]
PN    == [t |-> "pynone"]                         \* the Python value None (N above is "nothing there": no override / missing target)
L1    == [t |-> "list", n |-> 1]                  \* the mutable fallback [1]
IL(e) == [t |-> "ilist", e |-> e]                 \* a list of ints: the value of a COLLECTION-typed alias / target (cfg.coll)
IsColl(cfg) == "coll" \in DOMAIN cfg /\ cfg.coll
T(cfg, v) == IF ~cfg.tr THEN v ELSE IF v.t = "int" THEN I(2 * v.i) ELSE IF v.t = "str" THEN S(v.s \o v.s) ELSE v
Fallback(cfg) == IF cfg.fb = "imm" THEN I(7) ELSE L1
Typed(cfg, v) == cfg.host # "spec" \/ v.t = (IF IsColl(cfg) THEN "ilist" ELSE "int")   \* on a spec class the alias is a managed attribute of type int (List[int] when cfg.coll)
Res(st, res, val) == [st |-> st, res |-> res, val |-> val]
MissingErr == {"AttributeError", "KeyError"}

ReadAlias(Dev, cfg, st) ==
  IF ~cfg.pt /\ st.ov # N THEN Res(st, {"ok"}, st.ov)
  ELSE IF st.target # N THEN Res(st, {"ok"}, T(cfg, st.target))
  ELSE IF cfg.fb # "none" THEN Res(st, {"ok"}, Fallback(cfg))
  ELSE Res(st, {"AttributeError"}, N)

Step(Dev, cfg, st, a) ==
  CASE a.op = "read_alias"   -> ReadAlias(Dev, cfg, st)
    [] a.op \in {"write_alias", "cow_alias"} ->
         IF ~Typed(cfg, a.v) THEN Res(st, {"TypeError"}, N)
         ELSE IF cfg.pt THEN Res([st EXCEPT !.target = a.v], {"ok"}, N)
         ELSE Res([st EXCEPT !.ov = a.v, !.target = IF "shadow_writes_target" \in Dev THEN a.v ELSE @], {"ok"}, N)
    [] a.op = "delete_alias" ->
         IF cfg.pt THEN (IF st.target # N THEN Res([st EXCEPT !.target = N], {"ok"}, N) ELSE Res(st, MissingErr, N))
         ELSE IF st.ov # N THEN Res([st EXCEPT !.ov = N, !.target = IF "delete_hits_target" \in Dev THEN N ELSE @], {"ok"}, N)
         ELSE Res(st, {"AttributeError"}, N)
    [] a.op = "read_target"   -> IF st.target # N THEN Res(st, {"ok"}, st.target) ELSE Res(st, MissingErr, N)
    [] a.op \in {"write_target", "cow_target"} -> Res([st EXCEPT !.target = a.v], {"ok"}, N)
    [] a.op = "delete_target" -> IF st.target # N THEN Res([st EXCEPT !.target = N], {"ok"}, N) ELSE Res(st, MissingErr, N)
    [] a.op = "deepcopy"      -> Res(st, {"ok"}, N)
    \* element helpers (copy-on-write) on a collection-typed alias / target: the new value is the value READ through the alias plus the item;
    \* stored like any assignment to the alias (local override, or the target for a passthrough alias); the target is otherwise untouched
    [] a.op = "cow_item_alias" -> LET r == ReadAlias(Dev, cfg, st) IN
         IF r.res # {"ok"} THEN Res(st, {"unspecified"}, N)
         ELSE LET nv == IL(Append(r.val.e, a.v.i)) IN
              IF cfg.pt THEN Res([st EXCEPT !.target = nv], {"ok"}, N) ELSE Res([st EXCEPT !.ov = nv], {"ok"}, N)
    [] a.op = "cow_item_target" -> IF st.target = N THEN Res(st, {"unspecified"}, N) ELSE Res([st EXCEPT !.target = IL(Append(st.target.e, a.v.i))], {"ok"}, N)
IsAliasAccess(a) == a.op \in {"read_alias", "write_alias", "delete_alias"}
=============================================================================
