------------------------------ MODULE KeyedList ------------------------------
(* State machine over one KeyedList (C13): every reachable content within the bound, every
   action of the alphabet in every state.  The history variable `last` is hidden by the VIEW
   so the distinct states are exactly the list contents; action properties still see it. *)
EXTENDS KeyedListOps, TLC, Json, IOUtils, SequencesExt

CONSTANTS Keys, Payloads, MaxLen, Typed, IntKeys, Dev

VARIABLES lst, idx, last
vars == <<lst, idx, last>>
View == <<lst, idx>>

Cfg   == [typed |-> Typed, intkeys |-> IntKeys]
Items == [k : Keys, p : Payloads, bad : {"no"}]
AnyKey == CHOOSE k \in Keys : TRUE
\* "itemk": an item of the wrong type that nevertheless yields a perfectly good key (possibly one already present)
BadItems == IF Typed THEN {[k |-> AnyKey, p |-> 0, bad |-> "item"], [k |-> AnyKey, p |-> 0, bad |-> "key"]} \cup {[k |-> k, p |-> 0, bad |-> "itemk"] : k \in Keys} ELSE {}
XItems == Items \cup BadItems
Idxs  == (0 - MaxLen - 1)..(MaxLen + 1)
Batches == {<<>>} \cup {<<x>> : x \in XItems} \cup {<<x, y>> : x \in XItems, y \in Items}
GoodBatches == {<<>>} \cup {<<x>> : x \in Items} \cup {<<x, y>> : x \in Items, y \in Items}

Acts ==
       {[op |-> "insert", i |-> i, x |-> x] : i \in Idxs, x \in XItems}
  \cup {[op |-> "append", x |-> x] : x \in XItems}
  \cup {[op |-> "setidx", i |-> i, x |-> x] : i \in Idxs, x \in XItems}
  \cup (IF IntKeys THEN {} ELSE {[op |-> "setkey", k |-> k, x |-> x] : k \in Keys, x \in XItems})
  \cup {[op |-> "delidx", i |-> i] : i \in Idxs}
  \cup (IF IntKeys THEN {} ELSE {[op |-> "delkey", k |-> k] : k \in Keys})
  \cup {[op |-> o, xs |-> xs] : o \in {"extend", "iadd"}, xs \in Batches}
  \cup {[op |-> "pop", i |-> i] : i \in Idxs}
  \cup {[op |-> "poplast"], [op |-> "reverse"], [op |-> "clear"]}
  \cup {[op |-> "remove", x |-> x] : x \in Items}
  \cup {[op |-> o, xs |-> xs] : o \in {"add", "radd"}, xs \in GoodBatches}

Init == lst = <<>> /\ idx = IdxOf(<<>>) /\ last = [a |-> [op |-> "init"], res |-> "ok"]

Next == \E a \in Acts :
          LET o == OpStep(Dev, Cfg, S(lst, idx), a)
          IN /\ Len(o.s.lst) <= MaxLen
             /\ lst' = o.s.lst /\ idx' = o.s.idx
             /\ last' = [a |-> a, res |-> o.res]

Spec == Init /\ [][Next]_vars

\* ------------------------------------------------------------------ properties
InvUnique   == Unique(lst)
InvCoherent == Coherent(lst, idx)
\* every keyed read agrees with a linear scan
InvReads    == \A k \in Keys : /\ (k \in DOMAIN idx) = (\E j \in 1..Len(lst) : lst[j].k = k)
                               /\ (k \in DOMAIN idx => idx[k] = lst[PosOfKey(lst, k) + 1])
\* a raising operation leaves the container exactly as it was
PropAtomic  == [][last'.res # "ok" => lst' = lst /\ idx' = idx]_vars
\* the implementation-shaped model is the plain list operation + the unique-key rule
PropListLike == [][Refines(Dev, Cfg, lst, last'.a)]_vars

\* export of the action universe for the generation role (evaluated once at start-up)
ASSUME IF "VERIF_ACTS" \in DOMAIN IOEnv THEN JsonSerialize(IOEnv.VERIF_ACTS, SetToSeq(Acts)) ELSE TRUE
=============================================================================
