------------------------ MODULE SpecPropertyFrozen ------------------------
(* spec_property on a FROZEN spec class (C07 / C12): the instance may start out with an override given to the constructor (managed
   property); assignment, deletion and changes of the underlying state are refused and change nothing; reads follow the same
   priority rule and may fill the cache. *)
EXTENDS SpecPropertyOps, TLC, Json, IOUtils, SequencesExt
CONSTANTS Dev
VARIABLES cfg, st, g, last
vars == <<cfg, st, g, last>>
View == <<cfg, st, g>>
Cfgs == {c \in [ov : BOOLEAN, cache : BOOLEAN, fset : BOOLEAN, fdel : BOOLEAN, host : {"unmanaged", "managed"}, frozen : {TRUE}, initov : BOOLEAN] :
            c.initov => (c.host = "managed" /\ c.ov /\ ~c.fset)}
Acts == {[op |-> "read"], [op |-> "delete"]} \cup {[op |-> "assign", v |-> v] : v \in {I(5), S("s"), PN}} \cup {[op |-> "under", u |-> u] : u \in 0..2}
Init == /\ cfg \in Cfgs /\ st = SPInit(cfg) /\ g = GInit(cfg) /\ last = [a |-> [op |-> "init"], res |-> "ok", val |-> N]
Next == \E a \in Acts : LET r == SPStep(Dev, cfg, st, a) IN
          /\ st' = r.st /\ cfg' = cfg /\ g' = Ghost(cfg, g, a, r.res, r.val) /\ last' = [a |-> a, res |-> r.res, val |-> r.val]
Spec == Init /\ [][Next]_vars
PropFrozen   == [][last'.a.op # "read" => last'.res = "FrozenInstanceError" /\ st' = st /\ g' = g]_vars
PropPriority == [][last'.a.op = "read" => LET p == Priority(cfg, g, st.under) IN last'.res = p.res /\ last'.val = p.val]_vars
PropOverrideKept == [][g.ov # N => g'.ov = g.ov]_vars
ASSUME IF "VERIF_ACTS" \in DOMAIN IOEnv THEN JsonSerialize(IOEnv.VERIF_ACTS, SetToSeq(Acts)) ELSE TRUE
=============================================================================
