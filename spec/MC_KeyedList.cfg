SPECIFICATION Spec
CONSTANTS
  Keys = {"a", "b", "c"}
  Payloads = {0, 1}
  MaxLen = 3
  Typed = TRUE
  IntKeys = FALSE
  Dev = {}
VIEW View
INVARIANT InvUnique
INVARIANT InvCoherent
INVARIANT InvReads
PROPERTY PropAtomic
PROPERTY PropListLike
CHECK_DEADLOCK FALSE
