"""TLC runner and TLA+ value plumbing shared by every check.

Roles (DESIGN.md 2.4): MC run (+ dump of distinct states), action-universe export,
judge runs over recorded ndjson events.  TLC is always wrapped in `timeout`.
"""
import json
import os
import re
import shutil
import subprocess
import tempfile
import time
from concurrent.futures import ThreadPoolExecutor

VERIF = os.path.dirname(os.path.dirname(os.path.abspath(__file__)))
SPEC = os.path.join(VERIF, "spec")
JAR = "/opt/veriftools/tla/tla2tools.jar:/opt/veriftools/tla/CommunityModules-deps.jar"


class MachineryError(Exception):
    """TLC crashed / could not parse / produced no verdict: exit code 2, never a property verdict."""


def scratch(prefix="verif-"):
    return tempfile.mkdtemp(prefix=prefix)


def run_tlc(module, cfg=None, *, workers=4, args=(), env=None, timeout=900, cwd=SPEC, heap="2g",
            simulate=None, depth_first=False, library=None):
    """Run TLC on spec/<module>.tla with spec/<cfg>; return (stdout, wall_s).  Never raises on
    invariant violation (caller inspects the text); raises MachineryError on crash/timeout."""
    meta = scratch("tlcmeta-")
    cmd = ["timeout", str(timeout), "java", "-XX:+UseParallelGC", "-Xmx" + heap]
    if depth_first:
        cmd.append("-Dtlc2.tool.queue.IStateQueue=StateDeque")
    if library:
        cmd.append("-DTLA-Library=" + library)
    cmd += ["-cp", JAR, "tlc2.TLC", "-workers", str(workers), "-metadir", meta, "-noGenerateSpecTE"]
    if cfg:
        cmd += ["-config", cfg]
    if simulate:
        cmd += ["-simulate", simulate]
    cmd += list(args) + [module]
    e = dict(os.environ)
    e.update(env or {})
    t0 = time.time()
    try:
        p = subprocess.run(cmd, cwd=cwd, env=e, stdout=subprocess.PIPE, stderr=subprocess.STDOUT, text=True)
    finally:
        shutil.rmtree(meta, ignore_errors=True)
    wall = time.time() - t0
    out = p.stdout
    if p.returncode == 124:
        raise MachineryError(f"TLC timed out after {timeout}s on {module}\n{out[-2000:]}")
    if ("Parsing or semantic analysis failed" in out or "java.lang." in out and "Exception" in out
            and "TLC threw an unexpected exception" in out):
        raise MachineryError(f"TLC failed on {module}:\n{out[-4000:]}")
    return out, wall


_STATS = re.compile(r"(\d+) states generated, (\d+) distinct states found")


def mc_stats(out):
    m = None
    for m in _STATS.finditer(out):
        pass
    if not m:
        raise MachineryError("no state statistics in TLC output:\n" + out[-3000:])
    return {"generated": int(m.group(1)), "distinct": int(m.group(2))}


def mc_ok(out):
    return "Model checking completed. No error has been found." in out


def mc_violation(out):
    """Name of the violated invariant / property, or None."""
    m = re.search(r"Invariant (\S+) is violated", out)
    if m:
        return m.group(1)
    m = re.search(r"Action property (\S+) is violated", out)
    if m:
        return m.group(1)
    if "Temporal properties were violated" in out:
        return "temporal"
    if "Deadlock reached" in out:
        return "deadlock"
    if "Assumption" in out and "is false" in out:
        return "assumption"
    if "Error:" in out and not mc_ok(out):
        return "error"
    return None


def coverage_actions(out):
    """Parse `-coverage` output: {action name: (distinct, total)}."""
    cov = {}
    for m in re.finditer(r"<(\w+) line \d+, col \d+ to line \d+, col \d+ of module (\w+)>: (\d+):(\d+)", out):
        cov[m.group(1)] = (int(m.group(3)), int(m.group(4)))
    return cov


# ----------------------------------------------------------------------------- value parser

class _P:
    def __init__(self, s):
        self.s = s
        self.i = 0

    def ws(self):
        s = self.s
        while self.i < len(s) and s[self.i] in " \t\r\n":
            self.i += 1

    def peek(self, k=1):
        return self.s[self.i:self.i + k]

    def expect(self, tok):
        self.ws()
        if not self.s.startswith(tok, self.i):
            raise ValueError(f"expected {tok!r} at {self.i}: {self.s[self.i:self.i+40]!r}")
        self.i += len(tok)

    def value(self):
        self.ws()
        s = self.s
        c = s[self.i]
        if c == '"':
            j = self.i + 1
            buf = []
            while s[j] != '"':
                if s[j] == "\\":
                    j += 1
                    buf.append({"n": "\n", "t": "\t"}.get(s[j], s[j]))
                else:
                    buf.append(s[j])
                j += 1
            self.i = j + 1
            return "".join(buf)
        if s.startswith("<<", self.i):
            self.i += 2
            out = []
            self.ws()
            if s.startswith(">>", self.i):
                self.i += 2
                return out
            while True:
                out.append(self.value())
                self.ws()
                if s.startswith(",", self.i):
                    self.i += 1
                    continue
                self.expect(">>")
                return out
        if c == "{":
            self.i += 1
            out = []
            self.ws()
            if s[self.i] == "}":
                self.i += 1
                return {"$set": out}
            while True:
                out.append(self.value())
                self.ws()
                if s[self.i] == ",":
                    self.i += 1
                    continue
                self.expect("}")
                return {"$set": out}
        if c == "[":
            self.i += 1
            out = {}
            self.ws()
            if s[self.i] == "]":
                self.i += 1
                return out
            while True:
                self.ws()
                m = re.compile(r"\w+").match(s, self.i)
                name = m.group(0)
                self.i = m.end()
                self.expect("|->")
                out[name] = self.value()
                self.ws()
                if s[self.i] == ",":
                    self.i += 1
                    continue
                self.expect("]")
                return out
        if c == "(":
            # function  (k :> v @@ k :> v)
            self.i += 1
            out = []
            while True:
                k = self.value()
                self.expect(":>")
                v = self.value()
                out.append([k, v])
                self.ws()
                if s.startswith("@@", self.i):
                    self.i += 2
                    continue
                self.expect(")")
                return {"$fn": out}
        m = re.compile(r"-?\d+").match(s, self.i)
        if m:
            self.i = m.end()
            return int(m.group(0))
        m = re.compile(r"\w+").match(s, self.i)
        if m:
            self.i = m.end()
            w = m.group(0)
            if w == "TRUE":
                return True
            if w == "FALSE":
                return False
            return {"$mv": w}
        raise ValueError(f"cannot parse at {self.i}: {s[self.i:self.i+40]!r}")


def parse_value(text):
    p = _P(text)
    v = p.value()
    p.ws()
    if p.i != len(text):
        raise ValueError("trailing text: " + text[p.i:p.i + 40])
    return v


def parse_dump(path):
    """Parse a TLC `-dump` file into a list of {var: value}."""
    txt = open(path).read()
    states = []
    for block in re.split(r"^State \d+:\s*$", txt, flags=re.M)[1:]:
        block = block.strip()
        if not block:
            continue
        st = {}
        parts = re.split(r"^/\\ ", block, flags=re.M)
        if len(parts) == 1:
            parts = ["", block]
        for part in parts[1:]:
            name, val = part.split(" = ", 1)
            st[name.strip()] = parse_value(val.strip())
        states.append(st)
    return states


def parse_sim_traces(directory):
    """Parse files written by `-simulate file=...`: list of behaviours, each a list of {var: value}."""
    out = []
    for fn in sorted(os.listdir(directory)):
        txt = open(os.path.join(directory, fn)).read()
        beh = []
        for m in re.finditer(r"STATE_\d+ ==\s*(.*?)(?=\n\s*\n|\Z)", txt, flags=re.S):
            block = m.group(1).strip()
            st = {}
            parts = re.split(r"^\s*/\\ ", block, flags=re.M)
            if len(parts) == 1:
                parts = ["", block]
            for part in parts[1:]:
                if " = " not in part:
                    continue
                name, val = part.split(" = ", 1)
                st[name.strip()] = parse_value(val.strip())
            if st:
                beh.append(st)
        if beh:
            out.append(beh)
    return out


def to_tla(v):
    """Python/JSON value -> TLA+ literal (for generated constants)."""
    if isinstance(v, bool):
        return "TRUE" if v else "FALSE"
    if isinstance(v, int):
        return str(v)
    if isinstance(v, str):
        return '"' + v.replace("\\", "\\\\").replace('"', '\\"') + '"'
    if isinstance(v, (list, tuple)):
        return "<<" + ", ".join(to_tla(x) for x in v) + ">>"
    if isinstance(v, (set, frozenset)):
        return "{" + ", ".join(to_tla(x) for x in sorted(v, key=repr)) + "}"
    if isinstance(v, dict):
        if "$set" in v:
            return "{" + ", ".join(to_tla(x) for x in v["$set"]) + "}"
        return "[" + ", ".join(f"{k} |-> {to_tla(x)}" for k, x in v.items()) + "]"
    raise TypeError(v)


def unset(v):
    """Strip parser markers: {$set:[..]} -> list (sorted by repr for determinism), recursively."""
    if isinstance(v, dict):
        if "$set" in v:
            return sorted((unset(x) for x in v["$set"]), key=lambda x: json.dumps(x, sort_keys=True))
        if "$fn" in v:
            if all(isinstance(k, str) for k, _ in v["$fn"]):      # a record whose field names are not identifiers
                return {k: unset(x) for k, x in v["$fn"]}
            return [[unset(k), unset(x)] for k, x in v["$fn"]]
        if "$mv" in v:
            return v["$mv"]
        return {k: unset(x) for k, x in v.items()}
    if isinstance(v, list):
        return [unset(x) for x in v]
    return v


# ----------------------------------------------------------------------------- judge plumbing

def write_ndjson(path, events):
    with open(path, "w") as f:
        for e in events:
            f.write(json.dumps(e, separators=(",", ":")))
            f.write("\n")


def judge(module, events, *, cfg=None, chunk=20000, jobs=8, timeout=1200, env=None, heap="2g"):
    """Feed `events` (list of dicts) to judge module `module` in chunks.  The judge module must
    read IOEnv.VERIF_EVENTS (ndjson) and JsonSerialize to IOEnv.VERIF_OUT a record
    [bad |-> <<[i |-> n, c |-> clause, d |-> detail]...>>, n |-> number judged, ante |-> [clause |-> count]].
    Returns dict(bad=[(global index, clause, detail)], n=…, ante={clause: count}, wall=…)."""
    if not events:
        raise MachineryError("judge called with no events for " + module)
    tmp = scratch("judge-")
    t0 = time.time()
    try:
        chunks = [events[i:i + chunk] for i in range(0, len(events), chunk)]

        def one(ci):
            evp = os.path.join(tmp, f"ev{ci}.ndjson")
            outp = os.path.join(tmp, f"out{ci}.json")
            write_ndjson(evp, chunks[ci])
            e = {"VERIF_EVENTS": evp, "VERIF_OUT": outp}
            e.update(env or {})
            out, _ = run_tlc(module, cfg or (module + ".cfg"), workers=1, env=e, timeout=timeout, heap=heap)
            if not os.path.exists(outp):
                raise MachineryError(f"judge {module} produced no verdict file:\n{out[-4000:]}")
            r = json.load(open(outp))
            if isinstance(r, list):
                r = r[0]
            return ci, r

        res = {"bad": [], "n": 0, "ante": {}}
        with ThreadPoolExecutor(max_workers=jobs) as ex:
            for ci, r in ex.map(one, range(len(chunks))):
                res["n"] += r["n"]
                for b in r.get("bad", []):
                    res["bad"].append((ci * chunk + b["i"] - 1, b["c"], b.get("d", "")))
                for k, v in (r.get("ante") or {}).items():
                    res["ante"][k] = res["ante"].get(k, 0) + v
        if res["n"] != len(events):
            raise MachineryError(f"judge {module} judged {res['n']} of {len(events)} events")
        res["wall"] = time.time() - t0
        return res
    finally:
        shutil.rmtree(tmp, ignore_errors=True)
