"""Regenerates /verif/MANIFEST.json from the table below (python -m harness.manifest)."""
import json
import os

VERIF = os.path.dirname(os.path.dirname(os.path.abspath(__file__)))

TB = ("TLC 1.8 (evaluates both the model and the judge clauses); the harness's alpha/gamma translation between real objects "
      "and the specification's value model; CPython 3.12 semantics of the plain containers the specification is written against")

CHECKS = {
    "C13": dict(
        text="TLC model-checks KeyedList.tla (declarative 'plain list + unique-key rule' vs an implementation-shaped list+index model, "
             "invariants Unique/Coherent/Reads, action properties Atomic/ListLike) exhaustively for <=3 (thorough <=4) items over 3 (4) keys x 2 payloads; "
             "every distinct reachable content x every action of the exported action universe is then executed on the real KeyedList "
             "(4 item flavours x typed/untyped) plus seeded random histories up to 12 items, and TLC judges every recorded event with the same operators. "
             "Exhaustive inside the bound, sampled beyond; this is the right level for a small closed container whose state space the model can enumerate.",
        note=TB, technique="TLA+ spec + TLC model checking; spec->code replay of every (state, action); TLC-judged traces", ref="3 C13"),
    "C14": dict(
        text="TLC model-checks KeyedSet.tla (declarative key->item map and key-algebra vs the operational dict-probe / mixin-derived formulation; invariants "
             "Unique, Resolution (item-or-key), Algebra over every operand of <=2 items; action properties Refines, Atomic) for both enforce settings; every "
             "reachable content x every action (mutators, item-or-key reads, |,&,-,^,<=,<,>=,>,==,isdisjoint,|=,&=,-=,^= against KeyedSet and built-in set operands) "
             "is executed on the real KeyedSet in 4 item flavours x typed x enforce, plus random histories over 10 keys; TLC judges every event. Exhaustive in the bound.",
        note=TB, technique="TLA+ spec + TLC model checking; spec->code replay of every (state, action); TLC-judged traces", ref="3 C14"),
    "C12": dict(
        text="TLC model-checks SpecProperty.tla (all 16 option combinations x {plain, spec-class unmanaged, spec-class managed+preparer, spec-class managed List[int] with element preparer} hosts, values incl. None; SpecPropertyFrozen.tla: the same machine on frozen hosts; single dict slot vs "
             "declarative ghost (override, cache-since-last-deletion); invariant Slot, action properties Priority/Assign/Delete/Typed) and ClassProperty.tla (32 "
             "configurations over Base<-Mid<-Leaf; Isolation/NoCache/Read). All access paths of length 4 (classproperty 3; thorough: all of that length and every 8th path one step longer) over the model's action "
             "alphabet plus random longer paths are replayed through the real descriptors; TLC re-runs the model along each observed path and judges every access. "
             "The protocol state graphs are tiny, so all-paths replay decides the history dependence completely up to the path bound.",
        note=TB, technique="TLA+ spec + TLC model checking; exhaustive path replay through the real descriptor; TLC trace validation", ref="3 C12"),
    "C18": dict(
        text="TLC model-checks Alias.tla: a two-variable machine (target, local override) for all 288 configurations (passthrough x transform x fallback "
             "{none, immutable, mutable} x path {t, o.t, d[\"k\"], o.d['k'], e[\"k\"].t, e['q'].t, e['k.k'], e[\"k.q\"]} x host {plain, spec class with the alias as managed int attribute} x Deprecated) with "
             "action properties Shadow, Live, Passthrough, Missing, ReadsPure. All access paths of length 3 (thorough: all of length 3 and every 4th of length 4) over {alias/target read, write (incl. None and the value currently read), delete, "
             "copy-on-write helper, deepcopy} plus random paths of length 8-10 are replayed through real Alias/DeprecatedAlias descriptors, recording value, exception "
             "class, target/override state, fallback identity and warning count; TLC re-runs the model along every observed path. AliasColl.tla is the same machine for collection-typed "
             "aliases of a spec class, whose element helpers must build on the value read through the alias and leave the target's own list alone.",
        note=TB, technique="TLA+ spec + TLC model checking; exhaustive path replay through the real descriptor; TLC trace validation", ref="3 C18"),
    "C15": dict(
        text="Conforms(v, T) of PyTypes.tla transcribes the documented meaning of the annotation language; TLC enumerates every annotation of depth <= 1 "
             "(379 terms; thorough adds a 171-term depth-2 layer) x a 182-value pool built to contain conforming values and values failing at each structural "
             "position, model-checks algebraic laws (Optional, list/tuple/dict lifting, numeric tower, union monotonicity) on every pair, and the real check_type "
             "is executed on every pair (annotations rendered alternately as typing generics / PEP 585 / PEP 604 / Optional) plus random depth-3 terms; TLC judges "
             "accepted <=> Conforms and 'never raises'. A pure function: TLC is enumerator and evaluator, one implementation test per case of the function table.",
        note=TB, technique="TLA+ transcription of the type relation; TLC-enumerated function table executed on check_type; TLC-judged", ref="3 C15"),
    "C20": dict(
        text="Two TLA+ layers: CopyGuardOps/CopyGuard (protocol: what any correct implementation may do to copyreg.dispatch_table[ModuleType]; events Call/Begin/End/Ret "
             "per thread + Install/Restore; invariants Quiescent, Safe, ForeignUntouched) and CopyGuardImpl (PlusCal, implementation-shaped: singleton creation, lock, "
             "refcount, patched flag; TLC shows the fixed design satisfies the invariants for all interleavings of 2-3 threads x nesting 2 and that the two pre-fix "
             "designs -- __init__ re-run, racy creation -- violate them). Real executions are recorded as protocol traces (events derived by sys.settrace from "
             "protect_via_deepcopy / copy.deepcopy call/return, table snapshotted at every library line) for random histories of copying operations, every operation "
             "aborted at executed library lines, and real threads under a deterministic scheduler (all <=1-preemption, 2-thread <=2-preemption schedules at guard "
             "lines, plus random); TLC checks each trace step is a protocol step and every state satisfies the invariants.",
        note=TB + "; CPython GIL with line-granularity scheduling; harness-side replacement of the library's RLocks by scheduler-aware locks",
        technique="TLA+ protocol spec + PlusCal implementation model (TLC); trace validation of real sequential / aborted / scheduled-thread executions",
        ref="3 C20"),
    "C19": dict(
        text="BootstrapOps.tla is the protocol any correct lazy bootstrap must follow (at most one bootstrap per class by one thread, parents first, each Attr/field "
             "declaration consumed once, nothing modified after publication, no use observed before publication); BootstrapImpl.tla (PlusCal) model-checks all "
             "interleavings of 2-3 threads for three synchronisation designs (the two pre-fix ones violate, publish-last holds). Real threads perform the first use "
             "(instantiate / __spec_class__ / __dataclass_fields__ / through a subclass) of freshly built lazy classes (Attr and dataclasses.field declarations, lazy "
             "parent, own __new__, plain subclass, nested spec types) under a deterministic line-level scheduler: quick = a fixed fraction of all <=1-preemption schedules at "
             "shared-state lines + random; thorough = every <=1-preemption schedule at any library line, thinned <=2, 3 threads. TLC validates each recorded execution "
             "against the protocol and compares every thread's canonical class description and instance repr (of the class and, where the scenario has one, of its plain subclass mixing in another base's __new__) with the eager sequential reference; "
             "threads may first-use different classes of one hierarchy (child and lazy parent).",
        note=TB + "; CPython GIL with line-granularity scheduling; harness-side replacement of the library's RLocks",
        technique="TLA+ protocol spec + PlusCal implementation model (TLC); trace validation of real scheduled-thread executions against the eager reference",
        ref="3 C19"),
    "C01": dict(
        text="TLC model-checks SpecClass.tla (one live instance per scenario; Step = executable model of the documented helper semantics in SpecClassOps.tla; invariant TypeOK, "
             "action properties Atomic, SetAttrIsWith, CowEqualsInplace, IfFalse) for the scenario corpus (about 40 hand-written class definitions -- scalars incl. Optional/Union/Literal, list/set/dict of scalars, nested spec, "
             "list/dict/KeyedList/KeyedSet of (keyed) spec items, idempotent / non-idempotent / raising preparers, every way of declaring a default, do_not_copy by decorator list, "
             "Attr flag and whole class, spec and plain subclasses with re-defaulted attributes, spec-plain-spec, decorator-selected attributes, eager bootstrap -- plus a fixed "
             "corpus of 40 class definitions generated from the class grammar: a seed-rotating subset of 4 in the quick tier, all in the thorough tier); every distinct reachable "
             "state x the exported action universe (all helpers x flags x conforming and non-conforming arguments x raising callbacks; quick tier thinned per state) is executed on "
             "real classes rendered from the same scenario record, every copy-on-write call once more on its own result, plus seeded multi-step histories on persistent objects; "
             "recorded: value projections (incl. key-index coherence of keyed containers), identity tokens, argument objects, a peer instance and class defaults; corrupted copies "
             "of real events must be rejected by the judge (binding canaries); TLC judges each event: after a copy-on-write call the receiver's projection and the identity map of every mutable node reachable from it are unchanged "
             "(whether the call returned, raised, or was cut short by a fault injected at an executed library line) and every argument object is unchanged.",
        note=TB, technique="TLA+ spec + TLC model checking; spec->code replay of every (state, action); TLC-judged events", ref="3 C01"),
    "C02": dict(
        text="TLC model-checks SpecClass.tla (one live instance per scenario; Step = executable model of the documented helper semantics in SpecClassOps.tla; invariant TypeOK, "
             "action properties Atomic, SetAttrIsWith, CowEqualsInplace, IfFalse) for the scenario corpus (about 40 hand-written class definitions -- scalars incl. Optional/Union/Literal, list/set/dict of scalars, nested spec, "
             "list/dict/KeyedList/KeyedSet of (keyed) spec items, idempotent / non-idempotent / raising preparers, every way of declaring a default, do_not_copy by decorator list, "
             "Attr flag and whole class, spec and plain subclasses with re-defaulted attributes, spec-plain-spec, decorator-selected attributes, eager bootstrap -- plus a fixed "
             "corpus of 40 class definitions generated from the class grammar: a seed-rotating subset of 4 in the quick tier, all in the thorough tier); every distinct reachable "
             "state x the exported action universe (all helpers x flags x conforming and non-conforming arguments x raising callbacks; quick tier thinned per state) is executed on "
             "real classes rendered from the same scenario record, every copy-on-write call once more on its own result, plus seeded multi-step histories on persistent objects; "
             "recorded: value projections (incl. key-index coherence of keyed containers), identity tokens, argument objects, a peer instance and class defaults; corrupted copies "
             "of real events must be rejected by the judge (binding canaries); TLC judges each event: the identity tokens of the result and of the receiver intersect only in objects the caller handed in or below do_not_copy attributes.",
        note=TB, technique="TLA+ spec + TLC model checking; spec->code replay of every (state, action); TLC-judged identity partition", ref="3 C02"),
    "C03": dict(
        text="TLC model-checks SpecClass.tla (one live instance per scenario; Step = executable model of the documented helper semantics in SpecClassOps.tla; invariant TypeOK, "
             "action properties Atomic, SetAttrIsWith, CowEqualsInplace, IfFalse) for the scenario corpus (about 40 hand-written class definitions -- scalars incl. Optional/Union/Literal, list/set/dict of scalars, nested spec, "
             "list/dict/KeyedList/KeyedSet of (keyed) spec items, idempotent / non-idempotent / raising preparers, every way of declaring a default, do_not_copy by decorator list, "
             "Attr flag and whole class, spec and plain subclasses with re-defaulted attributes, spec-plain-spec, decorator-selected attributes, eager bootstrap -- plus a fixed "
             "corpus of 40 class definitions generated from the class grammar: a seed-rotating subset of 4 in the quick tier, all in the thorough tier); every distinct reachable "
             "state x the exported action universe (all helpers x flags x conforming and non-conforming arguments x raising callbacks; quick tier thinned per state) is executed on "
             "real classes rendered from the same scenario record, every copy-on-write call once more on its own result, plus seeded multi-step histories on persistent objects; "
             "recorded: value projections (incl. key-index coherence of keyed containers), identity tokens, argument objects, a peer instance and class defaults; corrupted copies "
             "of real events must be rejected by the judge (binding canaries); TLC judges each event: TypeOK (Conforms of PyTypes.tla, recursively through nested instances, keys and values) is evaluated by TLC on every OBSERVED post-state "
             "of receiver and result, on every mutation route (constructor, dict cast, assignment, deletion, scalar/element/top-level helpers, preparers).",
        note=TB, technique="TLA+ spec + TLC model checking; TLC evaluates the type invariant on observed real states", ref="3 C03"),
    "C04": dict(
        text="TLC model-checks SpecClass.tla (one live instance per scenario; Step = executable model of the documented helper semantics in SpecClassOps.tla; invariant TypeOK, "
             "action properties Atomic, SetAttrIsWith, CowEqualsInplace, IfFalse) for the scenario corpus (about 40 hand-written class definitions -- scalars incl. Optional/Union/Literal, list/set/dict of scalars, nested spec, "
             "list/dict/KeyedList/KeyedSet of (keyed) spec items, idempotent / non-idempotent / raising preparers, every way of declaring a default, do_not_copy by decorator list, "
             "Attr flag and whole class, spec and plain subclasses with re-defaulted attributes, spec-plain-spec, decorator-selected attributes, eager bootstrap -- plus a fixed "
             "corpus of 40 class definitions generated from the class grammar: a seed-rotating subset of 4 in the quick tier, all in the thorough tier); every distinct reachable "
             "state x the exported action universe (all helpers x flags x conforming and non-conforming arguments x raising callbacks; quick tier thinned per state) is executed on "
             "real classes rendered from the same scenario record, every copy-on-write call once more on its own result, plus seeded multi-step histories on persistent objects; "
             "recorded: value projections (incl. key-index coherence of keyed containers), identity tokens, argument objects, a peer instance and class defaults; corrupted copies "
             "of real events must be rejected by the judge (binding canaries); TLC judges each event: whenever the real call raised (whatever the model predicted) receiver, its identity map and the arguments are exactly as before; the failing "
             "edges cover ill-typed values at each position, missing index/key/element, duplicate keys, unknown keywords and callbacks raising at their k-th invocation.",
        note=TB, technique="TLA+ spec + TLC model checking; fault enumeration over every failing (state, action) edge; TLC-judged", ref="3 C04"),
    "C05": dict(
        text="TLC model-checks SpecClass.tla (one live instance per scenario; Step = executable model of the documented helper semantics in SpecClassOps.tla; invariant TypeOK, "
             "action properties Atomic, SetAttrIsWith, CowEqualsInplace, IfFalse) for the scenario corpus (about 40 hand-written class definitions -- scalars incl. Optional/Union/Literal, list/set/dict of scalars, nested spec, "
             "list/dict/KeyedList/KeyedSet of (keyed) spec items, idempotent / non-idempotent / raising preparers, every way of declaring a default, do_not_copy by decorator list, "
             "Attr flag and whole class, spec and plain subclasses with re-defaulted attributes, spec-plain-spec, decorator-selected attributes, eager bootstrap -- plus a fixed "
             "corpus of 40 class definitions generated from the class grammar: a seed-rotating subset of 4 in the quick tier, all in the thorough tier); every distinct reachable "
             "state x the exported action universe (all helpers x flags x conforming and non-conforming arguments x raising callbacks; quick tier thinned per state) is executed on "
             "real classes rendered from the same scenario record, every copy-on-write call once more on its own result, plus seeded multi-step histories on persistent objects; "
             "recorded: value projections (incl. key-index coherence of keyed containers), identity tokens, argument objects, a peer instance and class defaults; corrupted copies "
             "of real events must be rejected by the judge (binding canaries); TLC judges each event: for scalar and top-level helpers the observed result/receiver equals Step(pre, action), the exception class is one the model allows, and the "
             "returned object is the receiver exactly when the model says so (in-place, _if=False, UNCHANGED); MC proves obj.a = v == with_a(v, _inplace=True) and copy == in-place.",
        note=TB, technique="TLA+ executable model of the documentation; spec->code replay of every (state, action); TLC compares observed with Step", ref="3 C05"),
    "C06": dict(
        text="TLC model-checks SpecClass.tla (one live instance per scenario; Step = executable model of the documented helper semantics in SpecClassOps.tla; invariant TypeOK, "
             "action properties Atomic, SetAttrIsWith, CowEqualsInplace, IfFalse) for the scenario corpus (about 40 hand-written class definitions -- scalars incl. Optional/Union/Literal, list/set/dict of scalars, nested spec, "
             "list/dict/KeyedList/KeyedSet of (keyed) spec items, idempotent / non-idempotent / raising preparers, every way of declaring a default, do_not_copy by decorator list, "
             "Attr flag and whole class, spec and plain subclasses with re-defaulted attributes, spec-plain-spec, decorator-selected attributes, eager bootstrap -- plus a fixed "
             "corpus of 40 class definitions generated from the class grammar: a seed-rotating subset of 4 in the quick tier, all in the thorough tier); every distinct reachable "
             "state x the exported action universe (all helpers x flags x conforming and non-conforming arguments x raising callbacks; quick tier thinned per state) is executed on "
             "real classes rendered from the same scenario record, every copy-on-write call once more on its own result, plus seeded multi-step histories on persistent objects; "
             "recorded: value projections (incl. key-index coherence of keyed containers), identity tokens, argument objects, a peer instance and class defaults; corrupted copies "
             "of real events must be rejected by the judge (binding canaries); TLC judges each event: for element helpers of list/set/dict/KeyedList attributes the observed attribute equals the plain container operation of the model (append, replace/insert "
             "at Python index, assign key, add, replace by transformed value, remove by value/index/key; by-index defaulting; key promotion; keyword build/update of spec items).",
        note=TB, technique="TLA+ executable model of the container operations; spec->code replay of every (state, action); TLC compares observed with Step", ref="3 C06"),
    "C07": dict(
        text="Same pipeline as C05/C06 on frozen scenarios (frozen root with nested/list attributes; frozen child inside a non-frozen parent, alone and in a list; frozen by inheritance through a plain and "
             "through a decorated subclass; frozen with cached properties; a copy derived inside __post_init__; frozen + do_not_copy=True; a __post_copy__ hook that assigns; the frozen members of the generated corpus): MC of SpecClass.tla "
             "with the frozen rule in Step (in-place forms rejected, no-op forms allowed), then every (state, action) on the real frozen classes; TLC judges that the frozen "
             "receiver's projection and identity map never change, that in-place calls are rejected, that copy-on-write calls return a distinct instance, and -- the twin "
             "bisimulation -- that result and outcome equal the same Step that governs the non-frozen scenarios.",
        note=TB, technique="TLA+ spec + TLC model checking; spec->code replay of every (state, action) on frozen classes; TLC-judged", ref="3 C07"),
    "C08": dict(
        text="CowHeap.tla models the copy/alias rules at heap level (cells with identity and content version; roots = class default, retained constructor argument, live "
             "instances; construct, copy-on-write/deepcopy, reset, in-place poke; do_not_copy attribute carried by identity) and TLC checks NoSharing, PokeIsolated and "
             "DefaultsStable over all operation sequences, with four 'share instead of copy' deviations each producing a counterexample. DefaultsOps.tla states the nearest-"
             "default-along-the-MRO rule. Real histories (construction with retained arguments, pokes at depth, reset_<attr>, reset, del, derivations) over a hierarchy that "
             "declares defaults in every documented way (mutable literal, Attr(default=), Attr(default_factory=), dataclasses.field, nested instance, spec-subclass re-default, "
             "plain-subclass override) record every root before/after each step; TLC judges defaults/arguments/peers unchanged, no two roots sharing a mutable object, and "
             "reset/del == nearest default. The per-call peer/default clauses are also judged on the (state, action) tables of four core scenarios.",
        note=TB, technique="TLA+ heap/alias model (TLC) + declarative default rule; TLC-judged real histories with identity tokens", ref="3 C08"),
    "C11": dict(
        text="SpecClassOps.tla models spec_property reads (stored entry, else getter on current state, cached when caching is on), overrides, deletions and the transitive "
             "invalidation closure; SpecClass.tla adds read/override/delete-property actions and TLC checks InvFresh (no cache entry differs from the getter recomputed without "
             "caches) in every reachable state of the dependency-graph scenarios (two wildcard dependants, dependants declared on a plain mixin / on a plain class between spec classes, a frozen class, caches filled and a dependency assigned in __post_init__, and: attribute->cached->cached chain with a '*' wildcard dependant, managed attribute "
             "invalidated_by, chain through a NON-caching property, collection dependency mutated by element helpers, dependants added by a subclass). Every (state, action) -- "
             "states include filled caches and overrides, reached by real reads/assignments -- is executed on the real classes; TLC judges Fresh on the observed object, the "
             "value every read returns, and (through the Step equality that includes the cache slots) that unrelated or failing mutations discard nothing.",
        note=TB, technique="TLA+ spec + TLC model checking (Fresh invariant); spec->code replay of every (state, action); TLC-judged", ref="3 C11"),
    "C09": dict(
        text="SpecClassMeta.tla gives construction twice: declaratively (Expected: keyword value, else nearest default along the MRO incl. plain-subclass overrides, else missing; "
             "the owner's constructor -- generated or hand-written of the documented shape -- applied; key required iff no default; unknown keywords rejected unless an overflow "
             "attribute collects them; init=False attributes not accepted; __post_init__ once) and operationally (Construct: the owner-directed walk over the reversed MRO). "
             "TLC checks Expected == Construct for every instantiable class of 13 hierarchies x every keyword set of the model, and that a named deviation breaks it. The same "
             "cases are executed on real classes rendered from the same table (keyword and positional key), and TLC judges outcome class, every attribute value, the "
             "__post_init__ call count and that it ran after all attributes were set.",
        note=TB, technique="TLA+ declarative vs operational construction rule (TLC); TLC-enumerated cases executed on real hierarchies; TLC-judged", ref="3 C09"),
    "C10": dict(
        text="Equality.tla defines the generated __eq__ (instance check + every compare-enabled attribute, bound methods by function, missing only equals missing, no early "
             "exit) and Python's reflected-first dispatch for subclasses; TLC checks Reflexive, Symmetric, Transitive and Exact over ALL triples of an instance pool covering "
             "three classes (class, spec subclass, plain subclass) and attribute kinds int / own bound methods / function / class / module / missing at each position, and that the "
             "pre-fix early-return rule violates them. Real ==, != on all ordered pairs of the pool, sampled triples, deepcopy(x) == x, reconstruction from own attributes and "
             "repr (missing values, self reference directly and through list/dict, mutual reference, bound method of self, long/nested) are recorded and judged by TLC against "
             "EqOp / ReprAttrs.",
        note=TB, technique="TLA+ equality model with dispatch rule (TLC over all triples); real pairs/triples/copies/repr judged by TLC", ref="3 C10"),
    "C16": dict(
        text="DecorationOps.tla computes, from a class description (annotations with collection family, names the body defines, attrs/attrs_typed/attrs_skip selection, "
             "init/repr/eq switches, inherited managed attributes, singular-form table), the managed attributes (private never), the singular-name rule (fallback <attr>_item, "
             "RuntimeError when that collides too, renamed element helpers for an inherited collection) and the exact set of generated names; Decoration.tla is the class-"
             "dictionary state machine (declared -> bootstrapped -> first use of each lazy method) with invariants UserPreserved and ExactHelpers for every choice of a "
             "generated name pre-defined by the class body, and a 'register overwrites' deviation that violates them. Real classes are rendered from the same "
             "descriptions with that name defined as function / staticmethod / property / value, lazy and eager; the class __dict__ is snapshotted after decoration, bootstrap "
             "and first use, and TLC judges identity preservation of everything the body defined and set equality of the added names.",
        note=TB + "; singular forms are an input table", technique="TLA+ class-dictionary machine (TLC); rendered class variants with __dict__ snapshots judged by TLC", ref="3 C16"),
    "C17": dict(
        text="SigOps.tla models Python call binding against a signature (Binds) -- model-checked against a second, constructive formulation over all signatures of <=3 parameters "
             "and all small calls -- and the nested-attribute keywords a generated method must advertise (init-enabled, non-overflow attributes of the nested spec class: of the "
             "attribute type for scalar helpers, of the element type for element helpers, of the class itself for the constructor/update/transform; **kwargs iff that class has an "
             "overflow attribute). For every generated method of four real classes the advertised signature is read with inspect.signature, and calls are made with a spy in place "
             "of the implementation: minimal call, each advertised parameter, each pair, too many positionals, unadvertised names (other classes' attributes, init=False, "
             "overflow, private). TLC judges accepted <=> Binds(advertised, call), rejection is TypeError before the behaviour is reached, values and real defaults arrive as "
             "advertised, nested keywords one-to-one. A delivery phase then calls the REAL method (no spy) with every advertised nested keyword, pairs of them, the documented dict form "
             "of the value next to a keyword and, where **overflow is advertised, names outside the signature -- the whole list twice over -- and TLC judges that each value is found "
             "where SigOps.Destination says (nested attribute / overflow mapping).",
        note=TB, technique="TLA+ model of call binding (TLC, two formulations) + nested-keyword rule; introspected signatures and spy calls judged by TLC", ref="3 C17"),
}

PENDING = "check not built yet (see DESIGN.md section 3 for the planned TLA+ module)"


def build():
    props = [json.loads(l) for l in open(os.path.join(VERIF, "properties.jsonl"))]
    checks, na = [], []
    for p in props:
        pid = p["id"]
        c = CHECKS.get(pid)
        if not c:
            na.append({"property_id": pid, "reason": PENDING})
            continue
        checks.append({
            "property_id": pid,
            "quick_cmd": f"./check {pid} --tier quick",
            "thorough_cmd": f"./check {pid} --tier thorough",
            "evidence_file": f"/verif/evidence/{pid}.json",
            "replay_cmd_template": "./check replay {path}",
            "engine": "tlc-spec-conformance",
            "level_claimed": {"category": c.get("category", "model_checking"), "text": c["text"], "design_ref": "DESIGN.md section " + c["ref"]},
            "level_note": c["note"],
            "technique": c["technique"],
        })
    m = {
        "version": 1,
        "setup_cmd": "./setup.sh",
        "hooks": {"guard": "SPEC_CLASSES_VERIF", "enable": "no source hooks are needed: the checks observe through the public API, "
                  "instance/class __dict__, sys.settrace and harness-side monkeypatching; the guard name is reserved",
                  "baseline_off_cmd": "cd /repo && /venv/bin/python -m pytest -q -p no:cacheprovider --timeout=900",
                  "source_commits": [], "add_only": True},
        "engines": [{"name": "tlc-spec-conformance", "path": "/verif/check",
                     "serves_properties": [c["property_id"] for c in checks],
                     "kind_free_text": "explicit TLA+ specification (spec/*.tla) model-checked with TLC; generation of (state, action) tables and "
                                       "simulated behaviours from the model, executed on the real library; recorded events judged by TLC against the specification"}],
        "checks": checks,
        "not_applicable": na,
        "notes": "All verdicts come from TLC evaluating operators of the specification on states observed from the real code; "
                 "the Python harness only drives and records. known_findings.json lists fixed/open genuine defects.",
    }
    with open(os.path.join(VERIF, "MANIFEST.json"), "w") as f:
        json.dump(m, f, indent=1)
    return m


if __name__ == "__main__":
    m = build()
    print(f"MANIFEST.json: {len(m['checks'])} checks, {len(m['not_applicable'])} not applicable")
