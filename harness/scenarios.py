"""Scenario records: the class definitions a spec-class check works with (DESIGN.md Appendix F).

One Python dict per scenario is the single source for (i) the real classes (rendered to Python source
and exec'd) and (ii) the class table constant CT of the TLA+ model / judge."""
import textwrap

# ---- PyVal / PyTypes constructors (mirror spec/PyVal.tla, spec/PyTypes.tla)
def I(n): return {"t": "int", "i": n}
def S(s): return {"t": "str", "s": s}
def F(h): return {"t": "float", "h": h}
NONE = {"t": "none"}
MISSING = {"t": "missing"}
UNCHANGED = {"t": "unchanged"}
def L(*e): return {"t": "list", "e": list(e)}
def TUP(*e): return {"t": "tuple", "e": list(e)}
def SET(*e): return {"t": "set", "e": list(e)}
def D(*kv): return {"t": "dict", "e": [{"k": k, "v": v} for k, v in kv]}
def KL(*e): return {"t": "klist", "e": list(e)}
def KS(*e): return {"t": "kset", "e": list(e)}
def OBJ(c, **a): return {"t": "obj", "c": c, "a": a, "x": {"_": MISSING}}

def TB(n): return {"k": "base", "n": n}
TINT, TSTR, TFLOAT = TB("int"), TB("str"), TB("float")
TANY = {"k": "any"}
def TU(c): return {"k": "user", "c": c}
def TL(a): return {"k": "list", "a": a}
def TS(a): return {"k": "set", "a": a}
def TD(a, b): return {"k": "dict", "a": a, "b": b}
def TKL(a, kt): return {"k": "klist", "a": a, "kt": kt}
def TKS(a, kt): return {"k": "kset", "a": a, "kt": kt}
def TUN(*a): return {"k": "union", "as": list(a)}
def TOPT(a): return TUN(a, TB("none"))
def TLIT(*v): return {"k": "literal", "vs": list(v)}
TANY = {"k": "any"}
def TBGE(x): return {"k": "bounded", "n": "int", "lo": {"b": "ge", "x": x}, "hi": {"b": "none", "x": 0}}      # bounded(int, ge=x)
def TBLT(x): return {"k": "bounded", "n": "int", "lo": {"b": "none", "x": 0}, "hi": {"b": "lt", "x": x}}      # bounded(int, lt=x)


def attr(name, ty, dk="none", dv=None, dnc=False, invby=(), prep="none", iprep="none", item=""):
    return {"name": name, "ty": ty, "dk": dk, "dv": dv if dv is not None else MISSING, "dnc": dnc, "invby": list(invby),
            "prep": prep, "iprep": iprep, "item": item}


def prop(name, getter, cache=True, invby=()):
    return {"name": name, "getter": getter, "cache": cache, "invby": list(invby)}


def cls(attrs, frozen=False, dnc=False, key="", props=(), bases=(), plain=False, bootstrap=False, frozen_arg=None, post_init=(), post_set=None, post_keep=None, attrs_arg=None, extra_body=(), overflow=""):
    """frozen: what the class is (what the model reads); frozen_arg: what its decorator says (None: the same; False: nothing, i.e. inherited)"""
    return {"attrs": attrs, "frozen": frozen, "dnc": dnc, "key": key, "props": list(props), "bases": list(bases), "plain": plain,
            "bootstrap": bootstrap, "frozen_arg": frozen if frozen_arg is None else frozen_arg,
            "post_init": list(post_init), "post_set": list(post_set) if post_set else [],
            "post_keep": list(post_keep) if post_keep else [],
            "overflow": overflow,          # init_overflow_attr: the Dict[str, Any] attribute receiving the constructor's unknown keywords
            "attrs_arg": list(attrs_arg) if attrs_arg else [], "extra_body": list(extra_body)}       # attrs_arg: the decorator's attrs=[...]; extra_body: verbatim lines       # __post_init__: read these properties, then self.<a> = FN[f](self.<a>)


def inherited(attrs):
    return [dict(a, inherited=True) for a in attrs]


CHILD = cls([attr("v", TINT, "lit", I(1)), attr("ws", TL(TINT), "lit", L(), item="w")])          # (v defaults to 1: a keyword v=0 is falsy AND differs from the default)
KCHILD = cls([attr("k", TSTR), attr("v", TINT, "lit", I(0))], key="k")
OVER = cls([attr("a", TINT, "lit", I(0)), attr("extra", TD(TSTR, TANY), item="extra_item")], overflow="extra")          # unknown constructor keywords land in `extra`

CH0_ = {"t": "obj", "c": "Child", "a": {"v": I(0), "ws": L()}, "x": {"_": MISSING}}
INH_BASE = [attr("n", TINT, "lit", I(0)), attr("nums", TL(TINT), "factory", L(), item="num")]
FROZEN_BASE = [attr("nums", TL(TINT), "lit", L(), item="num"), attr("n", TINT, "lit", I(0))]

SCENARIOS = {
    "scalars": {"root": "P", "classes": {"P": cls([
        attr("n", TINT, "lit", I(0)),
        attr("s", TSTR),
        attr("o", TOPT(TINT), "lit", NONE),
        attr("u", TUN(TINT, TSTR), "lit", I(1)),
        attr("lit", TLIT(S("a"), S("b")), "lit", S("a")),
    ])}},
    "list_int": {"root": "P", "classes": {"P": cls([
        attr("nums", TL(TINT), "lit", L(), item="num"),
        attr("n", TINT, "lit", I(0)),
    ])}},
    # one list attribute explored up to THREE elements: equal elements separated by another one ([1, 2, 1]) exist only from length 3 on
    "list_int3": {"root": "P", "maxlen": 3, "classes": {"P": cls([
        attr("nums", TL(TINT), "lit", L(), item="num"),
    ])}},
    # bounded types with a bound of ZERO (inclusive below, exclusive above), as a scalar and as the element type of a list
    "bounded_attr": {"root": "P", "classes": {"P": cls([
        attr("lvl", TBGE(0), "lit", I(1)),
        attr("neg", TBLT(0), "lit", I(-1)),
        attr("lvls", TL(TBGE(0)), "factory", L(), item="lvls_item"),
    ])}},
    # a nested class with init_overflow_attr: keywords outside its attributes are constructor arguments too (they end up in `extra`)
    "nested_overflow": {"root": "P", "classes": {"Over": OVER, "P": cls([
        attr("over", TU("Over")),
        attr("n", TINT, "lit", I(0)),
    ])}},
    "set_str": {"root": "P", "classes": {"P": cls([
        attr("tags", TS(TSTR), "factory", SET(), item="tag"),
        attr("n", TINT, "lit", I(0)),
    ])}},
    "set_int": {"root": "P", "classes": {"P": cls([
        attr("flags", TS(TINT), item="flag"),
    ])}},
    "dict_int": {"root": "P", "classes": {"P": cls([
        attr("opts", TD(TSTR, TINT), item="opt"),
        attr("n", TINT, "lit", I(0)),
    ])}},
    "nested": {"root": "P", "classes": {"Child": CHILD, "P": cls([
        attr("child", TU("Child")),
        attr("n", TINT, "lit", I(0)),
    ])}},
    "nested_prep": {"root": "P", "classes": {"Child": CHILD, "P": cls([
        attr("child", TU("Child"), prep="plookup"),
    ])}},
    # the attribute preparer rejects some nested values: it runs after the nested value has been updated / transformed
    "nested_prep_boom": {"root": "P", "classes": {"Child": CHILD, "P": cls([
        attr("child", TU("Child"), prep="boomv1"),
    ])}},
    "list_spec": {"root": "P", "classes": {"Child": CHILD, "P": cls([
        attr("kids", TL(TU("Child")), "factory", L(), item="kid"),
    ])}},
    "klist": {"root": "P", "classes": {"KChild": KCHILD, "P": cls([
        attr("ks", TKL(TU("KChild"), TSTR), "factory", KL(), item="k"),
    ])}},
    "kset": {"root": "P", "classes": {"KChild": KCHILD, "P": cls([
        attr("kk", TKS(TU("KChild"), TSTR), "factory", KS(), item="kk_item"),
    ])}},
    "dict_spec": {"root": "P", "classes": {"KChild": KCHILD, "P": cls([
        attr("kd", TD(TSTR, TU("KChild")), "factory", D(), item="kd_item"),
    ])}},
    "frozen_nested": {"root": "P", "classes": {"Child": CHILD, "P": cls([
        attr("child", TU("Child")),
        attr("n", TINT, "lit", I(0)),
    ], frozen=True)}},
    "frozen_list": {"root": "P", "classes": {"P": cls([
        attr("nums", TL(TINT), "lit", L(), item="num"),
        attr("n", TINT, "lit", I(0)),
    ], frozen=True)}},
    "frozen_child": {"root": "P", "classes": {"Child": cls([attr("v", TINT, "lit", I(0)), attr("ws", TL(TINT), "lit", L(), item="w")], frozen=True), "P": cls([
        attr("child", TU("Child")),
    ])}},
    "frozen_kids": {"root": "P", "classes": {"Child": cls([attr("v", TINT, "lit", I(0)), attr("ws", TL(TINT), "lit", L(), item="w")], frozen=True), "P": cls([
        attr("kids", TL(TU("Child")), "factory", L(), item="kid"),
    ])}},
    "inv_chain": {"root": "P", "classes": {"P": cls([
        attr("a", TINT, "lit", I(0)),
        attr("b", TINT, "lit", I(0)),
    ], props=[prop("p", "a_plus_10", True, ["a"]), prop("q", "p_times_2", True, ["p"]), prop("r", "a_plus_b", True, ["*"])])}},
    # dependants declared OUTSIDE the spec classes: on a plain mixin the spec class inherits from, and on a plain class between two spec classes
    "inv_mixin": {"root": "P", "classes": {
        "M": cls([], plain=True, props=[prop("p", "a_plus_10", True, ["a"])]),
        "P": cls([attr("a", TINT, "lit", I(0)), attr("b", TINT, "lit", I(0))], bases=["M"],
                 props=[dict(prop("p", "a_plus_10", True, ["a"]), inherited=True), prop("q", "p_times_2", True, ["p"])])}},
    "inv_plain_between": {"root": "Leaf", "classes": {
        "Base": cls([attr("a", TINT, "lit", I(0))]),
        "Middle": cls([dict(attr("a", TINT, "lit", I(0)), inherited=True)], bases=["Base"], plain=True, props=[prop("p", "a_plus_10", True, ["a"])]),
        "Leaf": cls([dict(attr("a", TINT, "lit", I(0)), inherited=True), attr("b", TINT, "lit", I(0))], bases=["Middle"],
                    props=[dict(prop("p", "a_plus_10", True, ["a"]), inherited=True)])}},
    # two properties both invalidated by everything: invalidating one must not come back to the other's fresh override
    "inv_two_wild": {"root": "P", "classes": {"P": cls([
        attr("a", TINT, "lit", I(0)),
        attr("b", TINT, "lit", I(0)),
    ], props=[prop("p", "a_plus_10", True, ["*"]), prop("r", "a_plus_b", True, ["*"])])}},
    "inv_attr": {"root": "P", "classes": {"P": cls([
        attr("a", TINT, "lit", I(0)),
        attr("c", TINT, "attr", I(2), invby=["a", "u"]),
        attr("u", TINT),
    ], props=[prop("s", "c_plus_1", True, ["c"])])}},
    "inv_nocache": {"root": "P", "classes": {"P": cls([
        attr("a", TINT, "lit", I(0)),
    ], props=[prop("p", "a_plus_10", False, ["a"]), prop("q", "p_times_2", True, ["p"])])}},
    "inv_list": {"root": "P", "classes": {"P": cls([
        attr("xs", TL(TINT), "lit", L(), item="x"),
    ], props=[prop("n", "len_xs", True, ["xs"])])}},
    "inv_sub": {"root": "Sub", "classes": {
        "Base": cls([attr("a", TINT, "lit", I(0))], props=[prop("p", "a_plus_10", True, ["a"])]),
        "Sub": cls([dict(attr("a", TINT, "lit", I(0)), inherited=True, redefault=None), attr("c", TINT, "attr", I(2), invby=["a"])],
                   props=[dict(prop("p", "a_plus_10", True, ["a"]), inherited=True), prop("q", "p_times_2", True, ["p"])], bases=["Base"])}},
    # a frozen class with derived values: copy-on-write helpers thaw a copy, and must still invalidate on it
    "frozen_inv": {"root": "P", "classes": {"P": cls([
        attr("a", TINT, "lit", I(0)),
        attr("c", TINT, "attr", I(2), invby=["a"]),
    ], frozen=True, props=[prop("p", "a_plus_10", True, ["a"]), prop("q", "p_times_2", True, ["p"]), prop("s", "c_plus_1", True, ["c"])])}},
    # caches filled and a dependency assigned inside __post_init__ (the constructor's initialisation window is still open there)
    "inv_post_init": {"root": "P", "classes": {"P": cls([
        attr("a", TINT, "lit", I(0)),
        attr("b", TINT, "lit", I(0)),
    ], props=[prop("p", "a_plus_10", True, ["a"]), prop("q", "p_times_2", True, ["p"])], post_init=["p", "q"], post_set=("a", "inc"))}},
    # do_not_copy: one attribute carried into copies by identity; a whole class whose helpers work in place by documented design
    "dnc_attr": {"root": "P", "classes": {"Child": CHILD, "P": cls([
        attr("bigs", TL(TINT), "factory", L(), dnc=True, item="big"),
        attr("child", TU("Child"), dnc=True),
    ])}},
    "dnc_attr_decl": {"root": "P", "classes": {"P": cls([
        dict(attr("bigs", TL(TINT), "factory", L(), dnc=True, item="big"), dnc_decl="attr"),
        attr("n", TINT, "lit", I(0)),
    ])}},
    "dnc_class": {"root": "P", "classes": {"P": cls([
        attr("n", TINT, "lit", I(0)),
        attr("nums", TL(TINT), "factory", L(), item="num"),
    ], dnc=True)}},
    # every way of declaring a default
    "dflt_kinds": {"root": "P", "classes": {"P": cls([
        attr("lits", TL(TINT), "lit", L(), item="lit"),
        attr("facs", TL(TINT), "fieldfactory", L(), item="fac"),
    ])}},
    "dflt_kinds2": {"root": "P", "classes": {"P": cls([
        attr("maps", TD(TSTR, TINT), "attr", D(), item="map"),
        attr("flags", TS(TINT), "lit", SET(), item="flag"),
    ])}},
    # one level of spec / plain subclassing with a re-defaulted inherited attribute; eager bootstrap
    "inherit_spec": {"root": "Sub", "classes": {
        "Base": cls(INH_BASE),
        "Sub": cls([dict(INH_BASE[0], inherited=True, redefault=I(2)), dict(INH_BASE[1], inherited=True)] + [attr("m", TINT, "lit", I(1))], bases=["Base"])}},
    "inherit_plain": {"root": "Sub", "classes": {
        "Base": cls(INH_BASE),
        "Sub": cls([dict(INH_BASE[0], inherited=True, redefault=I(2)), dict(INH_BASE[1], inherited=True)], bases=["Base"], plain=True)}},
    # a plain subclass giving a MUTABLE default to attributes the spec class declares without one / with an immutable one
    "inherit_plain_mut": {"root": "Sub", "classes": {"Child": CHILD,
        "Base": cls([attr("nums", TL(TINT), item="num"), attr("child", TOPT(TU("Child")), "lit", NONE)]),
        "Sub": cls([dict(attr("nums", TL(TINT), item="num"), inherited=True, redefault=L()),
                    dict(attr("child", TOPT(TU("Child")), "lit", NONE), inherited=True, redefault=CH0_)], bases=["Base"], plain=True)}},
    # a spec subclass that asks for do_not_copy on an inherited default_factory attribute, and re-defaults an invalidated_by attribute
    "inherit_dnc": {"root": "Sub", "classes": {
        "Base": cls(INH_BASE + [attr("d", TINT, "attr", I(0), invby=["n"]), attr("lits", TL(TINT), "lit", L(), item="lit"), attr("e", TINT, "attr", I(0), invby=["n"])]),
        "Sub": cls([dict(INH_BASE[0], inherited=True), dict(INH_BASE[1], inherited=True, dnc=True),
                    dict(attr("e", TINT, "attr", I(0), invby=["n"]), inherited=True, dnc=True),          # only its copy policy changes: still invalidated by n
                    dict(attr("d", TINT, "attr", I(0), invby=["n"]), inherited=True, redefault=I(2)),
                    dict(attr("lits", TL(TINT), "lit", L(), item="lit"), inherited=True, redefault=L(I(1)))], bases=["Base"])}},
    # defaults that do not conform to the attribute's type: a plain subclass re-defaulting with another type, a collection defaulting to None
    "bad_default": {"root": "Sub", "classes": {
        "Base": cls([attr("y", TINT, "lit", I(0)), attr("nums", TL(TINT), "lit", NONE, item="num")]),
        "Sub": cls([dict(attr("y", TINT, "lit", I(0)), inherited=True, redefault=S("zero")),
                    dict(attr("nums", TL(TINT), "lit", NONE, item="num"), inherited=True)], bases=["Base"], plain=True)}},
    # the parent shares a collection of mutable items by design (do_not_copy); a decorated subclass that does not ask for that must copy it,
    # element helpers included (they are generated on the parent and bound to ITS attribute specification)
    "inherit_dnc_items": {"root": "Sub", "classes": {"Child": CHILD,
        "Base": cls([attr("kids", TL(TU("Child")), "factory", L(), dnc=True, item="kid")]),
        "Sub": cls([dict(attr("kids", TL(TU("Child")), "factory", L(), item="kid"), inherited=True), attr("m", TINT, "lit", I(1))], bases=["Base"])}},
    # managed attributes selected by the decorator's attrs=[...] (their types still come from the annotations); one annotated attribute left unmanaged
    "attrs_arg": {"root": "P", "classes": {"P": cls([
        attr("n", TINT, "lit", I(0)),
        attr("nums", TL(TINT), "factory", L(), item="num"),
        attr("o", TOPT(TINT), "lit", NONE),
    ], attrs_arg=["n", "nums", "o"], extra_body=["free: str = 'unmanaged'"])}},
    # spec class -> plain class re-defaulting an attribute -> spec class: the nearest default along the MRO is the plain class's
    "spec_plain_spec": {"root": "Leaf", "classes": {
        "Base": cls(INH_BASE),
        "Tuned": cls([dict(INH_BASE[0], inherited=True, redefault=I(2)), dict(INH_BASE[1], inherited=True)], bases=["Base"], plain=True),
        "Leaf": cls([dict(INH_BASE[0], inherited=True, dv_ct=I(2)), dict(INH_BASE[1], inherited=True), attr("m", TINT, "lit", I(1))], bases=["Tuned"])}},
    # the class under test has a decorated subclass that RE-DECLARES one of its attributes with another type (and a sibling adding an attribute):
    # bootstrapping those must leave the parent's own specification alone
    "sibling_redeclare": {"root": "P", "classes": {
        "P": cls([attr("n", TINT, "lit", I(0)), attr("nums", TL(TINT), "factory", L(), item="num")]),
        "Kid": cls([attr("n", TSTR, "lit", S("a")), dict(attr("nums", TL(TINT), "factory", L(), item="num"), inherited=True)], bases=["P"]),
        "Other": cls([dict(attr("n", TINT, "lit", I(0)), inherited=True), dict(attr("nums", TL(TINT), "factory", L(), item="num"), inherited=True),
                      attr("extra", TSTR, "lit", S("b"))], bases=["P"])}},
    # a do_not_copy collection with an item preparer that rewrites some items and refuses others: the constructor works on the caller's object
    "dnc_iprep": {"root": "P", "classes": {"P": cls([
        dict(attr("nums", TL(TINT), "factory", L(), dnc=True, iprep="pclip0", item="num"), dnc_decl="attr"),
        attr("n", TINT, "lit", I(1)),
    ])}},
    # a do_not_copy attribute whose default a plain subclass overrides with a mutable value: "never copied" is about copies of instances,
    # a default handed out on reset / del / construction is still a fresh object
    "dnc_plain_redefault": {"root": "Sub", "classes": {
        "Base": cls([attr("bigs", TL(TINT), "lit", L(), dnc=True, item="big"), attr("n", TINT, "lit", I(0))]),
        "Sub": cls([dict(attr("bigs", TL(TINT), "lit", L(), dnc=True, item="big"), inherited=True, redefault=L(I(2))),
                    dict(attr("n", TINT, "lit", I(0)), inherited=True)], bases=["Base"], plain=True)}},
    "eager": {"root": "P", "classes": {"P": cls([
        attr("c", TINT, "field", I(2)),
        attr("nums", TL(TINT), "factory", L(), item="num"),
    ], bootstrap=True)}},
    # a frozen class whose __post_init__ derives a copy (made while the constructor's initialisation window is open) that is used afterwards
    "frozen_post_copy": {"root": "P", "classes": {"P": cls([
        attr("n", TINT, "lit", I(0)),
        attr("nums", TL(TINT), "factory", L(), item="num"),
    ], frozen=True, post_keep=("n", "inc"))}},
    # a frozen class with a __post_copy__ hook that assigns (here: re-assigns) an attribute of the copy, as the hook is meant to
    "frozen_post_copy_hook": {"root": "P", "classes": {"P": cls([
        attr("n", TINT, "lit", I(0)),
        attr("nums", TL(TINT), "factory", L(), item="num"),
    ], frozen=True, extra_body=["def __post_copy__(self):\n    self.n = self.n"])}},
    # frozen AND do_not_copy=True: helpers would work in place, which a frozen class forbids
    "frozen_dnc": {"root": "P", "classes": {"P": cls([
        attr("n", TINT, "lit", I(0)),
        attr("nums", TL(TINT), "factory", L(), item="num"),
    ], frozen=True, dnc=True)}},
    # frozen by inheritance: an undecorated subclass, and a decorated subclass that does not repeat frozen=True
    "frozen_plain_sub": {"root": "PS", "classes": {"P": cls(FROZEN_BASE, frozen=True),
                                                   "PS": cls(inherited(FROZEN_BASE), frozen=True, bases=["P"], plain=True)}},
    "frozen_spec_sub": {"root": "PS", "classes": {"P": cls(FROZEN_BASE, frozen=True),
                                                  "PS": cls(inherited(FROZEN_BASE) + [attr("m", TINT, "lit", I(0))], frozen=True, frozen_arg=False, bases=["P"])}},
    # a preparer that is not idempotent (inc is +1 mod 3): skipping or repeating preparation shows
    "prep_nonidem": {"root": "P", "classes": {"P": cls([
        attr("n", TINT, "lit", I(0), prep="inc"),
        attr("nums", TL(TINT), "factory", L(), iprep="inc", item="num"),
    ])}},
    "prepared": {"root": "P", "classes": {"P": cls([
        attr("n", TINT, "lit", I(0), prep="pclip"),
        attr("nums", TL(TINT), "factory", L(), iprep="pclip", item="num"),
        attr("m", TINT, "lit", I(0), prep="boom1"),
    ])}},
}


# the fixed generated corpus (tools/gen_scenarios.py; committed JSON, independent of VERIF_SEED)
import json as _json
import os as _os
_GEN = _os.path.join(_os.path.dirname(_os.path.abspath(__file__)), "gen_scenarios.json")
GENERATED = []
if _os.path.exists(_GEN):
    with open(_GEN) as _f:
        _g = _json.load(_f)
    SCENARIOS.update(_g)
    GENERATED = sorted(_g)


# ----------------------------------------------------------------------------- rendering to TLA+

def tla_scenario(scn):
    """Class table CT for spec/SpecClassOps.tla (only the fields the model reads)."""
    ct = {}
    for cname, c in scn["classes"].items():
        if not c["attrs"]:          # (an attribute-less plain mixin: never instantiated, not part of the model's class table)
            continue
        ct[cname] = {"attrs": [a["name"] for a in c["attrs"]],
                     "spec": {a["name"]: {k: (a["dv_ct"] if k == "dv" and a.get("dv_ct") is not None else a["redefault"] if k == "dv" and a.get("redefault") is not None else a[k])
                                          for k in ("ty", "dk", "dv", "dnc", "invby", "prep", "iprep", "item")} for a in c["attrs"]},
                     "frozen": c["frozen"], "dnc": c["dnc"], "key": c["key"],
                     "overflow": c.get("overflow", ""),
                     "post": bool(c.get("post_init") or c.get("post_set") or c.get("post_keep")),          # a __post_init__ hook the model does not describe
                     "props": [{k: p[k] for k in ("name", "getter", "cache", "invby")} for p in c["props"]]}
    return ct


# ----------------------------------------------------------------------------- rendering to Python source

def ty_src(T):
    k = T["k"]
    if k == "any":
        return "Any"
    if k == "base":
        return {"int": "int", "str": "str", "float": "float", "bool": "bool", "none": "type(None)", "bytes": "bytes"}[T["n"]]
    if k == "user":
        return T["c"]
    if k == "list":
        return f"List[{ty_src(T['a'])}]"
    if k == "set":
        return f"Set[{ty_src(T['a'])}]"
    if k == "dict":
        return f"Dict[{ty_src(T['a'])}, {ty_src(T['b'])}]"
    if k == "klist":
        return f"KeyedList[{ty_src(T['a'])}, {ty_src(T['kt'])}]"
    if k == "kset":
        return f"KeyedSet[{ty_src(T['a'])}, {ty_src(T['kt'])}]"
    if k == "union":
        if len(T["as"]) == 2 and T["as"][1] == TB("none"):
            return f"Optional[{ty_src(T['as'][0])}]"
        return "Union[" + ", ".join(ty_src(a) for a in T["as"]) + "]"
    if k == "literal":
        return "Literal[" + ", ".join(val_src(v) for v in T["vs"]) + "]"
    if k == "bounded":
        return "bounded(int" + "".join(f", {T[e]['b']}={T[e]['x']}" for e in ("lo", "hi") if T[e]["b"] != "none") + ")"
    raise ValueError(T)


def val_src(v):
    t = v["t"]
    if t == "int":
        return repr(v["i"])
    if t == "str":
        return repr(v["s"])
    if t == "float":
        return repr(v["h"] / 2)
    if t == "bool":
        return repr(v["b"])
    if t == "none":
        return "None"
    if t == "list":
        return "[" + ", ".join(val_src(x) for x in v["e"]) + "]"
    if t == "tuple":
        return "(" + "".join(val_src(x) + ", " for x in v["e"]) + ")"
    if t == "set":
        return "{" + ", ".join(val_src(x) for x in v["e"]) + "}" if v["e"] else "set()"
    if t == "dict":
        return "{" + ", ".join(f"{val_src(e['k'])}: {val_src(e['v'])}" for e in v["e"]) + "}"
    if t == "klist":
        return "KeyedList([" + ", ".join(val_src(x) for x in v["e"]) + "])"
    if t == "kset":
        return "KeyedSet([" + ", ".join(val_src(x) for x in v["e"]) + "])"
    if t == "obj":
        return v["c"] + "(" + ", ".join(f"{k}={val_src(x)}" for k, x in v["a"].items() if x["t"] != "missing") + ")"
    raise ValueError(v)


FACTORY = {"list": "list", "set": "set", "dict": "dict", "klist": "KeyedList", "kset": "KeyedSet"}

HEADER = """
from typing import Any, Dict, List, Optional, Set, Union, Literal
import dataclasses
from spec_classes import Attr, spec_class, spec_property
from spec_classes.types import KeyedList, KeyedSet, bounded
"""


def class_src(cname, c, eager_all=False):
    lines = []
    if not c.get("plain"):
        args = []
        if c["key"]:
            args.append(f"key={c['key']!r}")
        if c.get("frozen_arg", c["frozen"]):
            args.append("frozen=True")
        if c["dnc"]:
            args.append("do_not_copy=True")
        dnc_attrs = [a["name"] for a in c["attrs"] if a["dnc"] and a.get("dnc_decl") != "attr"]
        if dnc_attrs and not c["dnc"]:
            args.append(f"do_not_copy={dnc_attrs!r}")
        if c.get("attrs_arg"):
            args.append(f"attrs={c['attrs_arg']!r}")
        if c.get("overflow"):
            args.append(f"init_overflow_attr={c['overflow']!r}")
        if c.get("bootstrap") or eager_all:
            args.append("bootstrap=True")
        lines.append("@spec_class" + (f"({', '.join(args)})" if args else ""))
    bases = f"({', '.join(c['bases'])})" if c.get("bases") else ""
    lines.append(f"class {cname}{bases}:")
    body = []
    for a in c["attrs"]:
        if a.get("inherited"):
            if a.get("redefault") is not None:
                body.append(f"{a['name']} = {val_src(a['redefault'])}")
            continue
        ann = f"{a['name']}: {ty_src(a['ty'])}"
        extra = []
        if a["invby"]:
            extra.append(f"invalidated_by={a['invby']!r}")
        if a["dnc"] and a.get("dnc_decl") == "attr":          # declared on the attribute itself rather than in the decorator's list
            extra.append("do_not_copy=True")
        if a["dk"] == "none":
            body.append(ann + (f" = Attr({', '.join(extra)})" if extra else ""))
        elif a["dk"] == "lit":
            body.append(ann + (f" = Attr(default={val_src(a['dv'])}, {', '.join(extra)})" if extra else f" = {val_src(a['dv'])}"))
        elif a["dk"] == "attr":
            body.append(ann + f" = Attr(default={val_src(a['dv'])}{''.join(', ' + e for e in extra)})")
        elif a["dk"] == "factory":
            body.append(ann + f" = Attr(default_factory={FACTORY[a['dv']['t']]}{''.join(', ' + e for e in extra)})")
        elif a["dk"] == "field":
            body.append(ann + f" = dataclasses.field(default={val_src(a['dv'])})")
        elif a["dk"] == "fieldfactory":
            body.append(ann + f" = dataclasses.field(default_factory={FACTORY[a['dv']['t']]})")
        if a["prep"] != "none":
            body.append(f"def _prepare_{a['name']}(self, value):\n    return FN[{a['prep']!r}](value)")
        if a["iprep"] != "none":
            body.append(f"def _prepare_{a['item']}(self, value):\n    return FN[{a['iprep']!r}](value)")
    body += list(c.get("extra_body", []))
    for p in c["props"]:
        if p.get("inherited"):
            continue
        body.append(f"@spec_property(cache={p['cache']!r}, invalidated_by={p['invby']!r})\ndef {p['name']}(self):\n"
                    f"    COUNTS[{p['name']!r}] = COUNTS.get({p['name']!r}, 0) + 1\n    return GETTERS[{p['getter']!r}](self)")
    if c.get("post_keep"):          # __post_init__ derives a copy of the half-constructed instance and keeps it: the receiver the harness then works on
        body.append(f"def __post_init__(self):\n    KEPT.append(self.with_{c['post_keep'][0]}(FN[{c['post_keep'][1]!r}](self.{c['post_keep'][0]})))")
    if c.get("post_init") or c.get("post_set"):
        lines_ = ["def __post_init__(self):"] + [f"    self.{p}" for p in c.get("post_init", [])]
        if c.get("post_set"):
            lines_.append(f"    self.{c['post_set'][0]} = FN[{c['post_set'][1]!r}](self.{c['post_set'][0]})")
        body.append("\n".join(lines_))
    if not body:
        body.append("pass")
    for b in body:
        lines.append(textwrap.indent(b, "    "))
    return "\n".join(lines) + "\n"


def source(scn, eager_all=False):
    return HEADER + "\n".join(class_src(n, c, eager_all) for n, c in scn["classes"].items())


# ----------------------------------------------------------------------------- argument pools (single source for model and harness)

def kws(*pairs):
    return [{"k": k, "v": v} for k, v in pairs]


CH0 = OBJ("Child", v=I(0), ws=L())
CH1 = OBJ("Child", v=I(1), ws=L(I(1)))
def KC(k, v=0): return OBJ("KChild", k=S(k), v=I(v))


def is_spec(scn, T):
    return T["k"] == "user" and T["c"] in scn["classes"]


def scalar_pool(scn, T):
    """(values for whole assignment, transforms)"""
    k = T["k"]
    if k == "base" and T["n"] == "int":
        return [I(0), I(1), I(2), S("a"), NONE], ["inc", "tostr", "boom", "zero"]
    if k == "base" and T["n"] == "str":
        return [S("a"), S("b"), S(""), I(1)], ["up", "zero", "boom"]
    if k == "union":
        return [NONE, I(0), I(1), S("a"), F(1)], ["inc", "tostr", "boom"]
    if k == "literal":
        return [S("a"), S("b"), S("c"), I(1)], ["up", "tostr"]
    if k == "bounded":
        return [I(-1), I(0), I(1), S("a")], ["inc", "zero", "tostr"]
    raise ValueError(T)


def item_pool(scn, T):
    """(items, indices/values to address, transforms, keyword pools (set/transform)) for element type T"""
    if T == TINT:
        return [I(0), I(1), I(2), S("a")], ["inc", "tostr", "boom"], [[]], [[]]
    if T == TSTR:
        return [S("a"), S("b"), S(""), I(1)], ["up", "zero"], [[]], [[]]
    if T["k"] == "bounded":
        return [I(0), I(1), I(-1), S("a")], ["inc", "zero"], [[]], [[]]
    if T == TU("Child"):
        return [CH0, CH1, I(3), MISSING], ["bumpv", "zero", "none", "shared"], [[], kws(("v", I(2))), kws(("v", S("bad")))], [[], kws(("v", "inc")), kws(("v", "tostr"))]
    if T == TU("KChild"):
        return [KC("a"), KC("b", 1), KC("a", 2), S("c"), I(3), MISSING], ["bumpv", "none"], [[], kws(("v", I(2))), kws(("v", S("bad")))], [[], kws(("v", "inc"))]
    raise ValueError(T)


def pools_for(scn, root):
    c = scn["classes"][root]
    out = {}
    empty = {k: [] for k in ("vp", "up", "kwp", "fp", "kwfp", "ip", "uip", "xp", "vop", "kp", "ikwp", "ifp", "ikwfp")}
    for a in c["attrs"]:
        T = a["ty"]
        p = dict(empty)
        p["kwp"], p["kwfp"] = [[]], [[]]
        k = T["k"]
        if is_spec(scn, T):
            sub = T["c"]
            if sub == "Child":
                p["vp"] = [CH0, CH1, D((S("v"), I(1))), D((S("v"), S("bad"))), D((S("zz"), I(1))), I(3), MISSING]
                p["kwp"] = [[], kws(("v", I(2))), kws(("v", I(0))), kws(("v", S("bad"))), kws(("ws", L(I(1), I(2))), ("v", I(1))), kws(("ws", L()), ("v", I(0)))]
                p["fp"] = ["bumpv", "zero", "boom", "none", "shared"]
                if a["prep"] == "plookup":
                    p["vp"] = p["vp"] + [S("s")]
                p["kwfp"] = [[], kws(("v", "inc")), kws(("v", "tostr")), kws(("v", "boom"))]
            if sub == "Over":
                OV0 = OBJ("Over", a=I(0), extra=D())
                OV1 = OBJ("Over", a=I(1), extra=D((S("retries"), I(1))))
                p["vp"] = [OV0, OV1, I(3), MISSING]
                p["kwp"] = [[], kws(("a", I(2))), kws(("retries", I(1))), kws(("a", I(1)), ("timeout", I(2))), kws(("timeout", I(2)), ("retries", I(0))), kws(("a", S("bad")))]
                p["fp"] = ["same", "none", "boom"]
                p["kwfp"] = [[], kws(("a", "inc"))]
            p["up"] = p["vp"]
        elif k in ("list", "klist", "set", "kset", "dict"):
            it = T["b"] if k == "dict" else T["a"]
            items, fns, ikw, ikwf = item_pool(scn, it)
            p["ip"] = items if MISSING in items or not is_spec(scn, it) else items
            p["uip"] = [x for x in items if x != MISSING][:3] + ([MISSING] if is_spec(scn, it) else [])
            p["ifp"] = fns
            p["ikwp"], p["ikwfp"] = ikw, ikwf
            good = [x for x in items if x["t"] == ("obj" if is_spec(scn, it) else it.get("n", "") and {"int": "int", "str": "str"}[it["n"]])]
            if k in ("list", "klist"):
                p["xp"] = [I(-3), I(-2), I(-1), I(0), I(1), I(2), S("zz")]
                p["vop"] = [I(-3), I(-1), I(0), I(1), I(2)] + ([S("a"), S("zz")] if k == "klist" else []) + (good[:2] if is_spec(scn, it) else [S("a")] if it == TINT else [])
                mk = L if k == "list" else KL
                p["vp"] = [mk(), mk(good[0]), mk(good[1], good[0]), TUP(good[0], good[1]), NONE, L(items[-1] if items[-1] != MISSING else I(7)), I(5), MISSING]
                if it == TINT:
                    p["vp"] += [L(I(2), I(2)), L(I(1), S("a")), L(I(2), I(0))]
                if it == TU("KChild"):
                    p["vp"] += [L(S("c")), L(KC("a"), KC("a", 1))]
                    if k == "klist":      # already-keyed containers holding raw keys / foreign items (re-validated item by item)
                        p["vp"] += [KL(S("c")), KL(I(1), I(2)), KL(KC("b"), S("c"))]
            elif k in ("set", "kset"):
                p["vop"] = [x for x in items if x != MISSING]
                p["ip"] = [x for x in items if x != MISSING]
                p["uip"] = [x for x in items if x != MISSING][:3] + ([MISSING] if is_spec(scn, it) else [])
                p["vp"] = [SET(), SET(good[0]), SET(good[0], good[1]), L(good[1], good[1]), SET(items[-1]), NONE, I(5), MISSING]
                if k == "kset":
                    p["vp"] = [KS(), KS(good[0]), L(good[0], good[1]), KS(I(1)), KS(S("c")), L(S("c")), NONE, MISSING]
            else:
                p["kp"] = [S("a"), S("b"), I(1)]
                p["vp"] = [D(), D((S("a"), good[0])), D((S("a"), good[1]), (S("b"), good[0])), D((I(1), good[0])), D((S("a"), items[-1] if items[-1] != MISSING else S("x"))), L(), NONE, MISSING]
                if it == TU("KChild"):
                    p["vp"] += [D((S("a"), S("c")))]
            p["up"] = p["vp"][:4]
            p["fp"] = ["same", "boom", "zero"]
        else:
            vals, fns = scalar_pool(scn, T)
            p["vp"] = vals + [MISSING]
            p["up"] = vals[:3]
            p["fp"] = fns
        out[a["name"]] = p
    return out


def top_pools(scn, root, pools):
    c = scn["classes"][root]
    names = [a["name"] for a in c["attrs"]]
    kw, kwf = [[]], [[]]
    firsts = []
    for a in c["attrs"]:
        vp = [v for v in pools[a["name"]]["vp"] if v["t"] not in ("missing",)]
        if vp:
            firsts.append((a["name"], vp[0], vp[-1] if vp[-1] != vp[0] else vp[0], pools[a["name"]]["fp"]))
    for n, good, bad, fns in firsts:
        kw.append(kws((n, good)))
        kw.append(kws((n, bad)))
        if fns:
            kwf.append(kws((n, fns[0])))
            kwf.append(kws((n, [f for f in fns if f != "none"][-1])))
    for (n1, g1, b1, f1), (n2, g2, b2, f2) in zip(firsts, firsts[1:]):
        kw.append(kws((n1, g1), (n2, g2)))
        kw.append(kws((n1, g1), (n2, b2)))          # second keyword fails after the first was accepted
        kw.append(kws((n1, pools[n1]["vp"][1] if len(pools[n1]["vp"]) > 1 else g1), (n2, b2)))
        if f1 and f2:
            kwf.append(kws((n1, f1[0]), (n2, [f for f in f2 if f != "none"][-1])))
            kwf.append(kws((n1, f1[0]), (n2, f2[0])))          # both results depend on their input: shows whether the second transform sees the effect of the first
            kwf.append(kws((n2, f2[0]), (n1, f1[0])))
    kw.append(kws(("nosuchattr", I(1))))
    init = [[]]
    for n, good, bad, fns in firsts:
        init.append(kws((n, good)))
    key = c["key"]
    if key:
        init = [kws((key, S("a")))]
    return {"kw": kw, "kwf": kwf, "init": init, "ovp": [I(7)] if c["props"] else []}


def model_constants(name):
    scn = SCENARIOS[name]
    root = scn["root"]
    pools = pools_for(scn, root)
    pools["_top"] = top_pools(scn, root, pools)
    return {"ct": tla_scenario(scn), "root": root, "pools": pools}
