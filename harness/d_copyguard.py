"""Driver for C20: records protocol traces (CopyGuardOps) of the real copy guard -- sequential
histories, aborted copies (fault at every executed library line), and scheduled threads."""
import copy
import copyreg
import os
import random
import sys
import threading
from types import ModuleType
from typing import Any, Dict, List

from . import common, sched
from spec_classes import spec_class
import spec_classes.utils.mutation as mu

_REAL_RLOCK_TYPE = type(threading.RLock())


@spec_class(bootstrap=True)
class Inner:
    mod: Any = sys
    xs: List[int] = []


@spec_class(bootstrap=True)
class Outer:
    inner: Inner = Inner()
    inners: List[Inner] = []
    d: Dict[str, Inner] = {}
    mod: Any = os
    n: int = 0


class Boom(Exception):
    pass


@spec_class(bootstrap=True)
class Fragile:
    inner: Inner = Inner()
    n: int = 0

    def __post_copy__(self):
        if self.n == 13:
            raise Boom("post copy")


def FOREIGN(module):           # a reducer some other library registered before spec-classes was used
    return "foreign-passthrough"


def table_state():
    cur = copyreg.dispatch_table.get(ModuleType)
    if cur is None:
        return "absent"
    return "foreign" if cur is FOREIGN else "ours"


def set_table0(table0):
    copyreg.dispatch_table.pop(ModuleType, None)
    if table0 == "foreign":
        copyreg.dispatch_table[ModuleType] = FOREIGN


def reset_guard(drop_instance=False):
    """Bring the library's guard object back to its pristine state between executions (harness-side
    knowledge of the guard's fields; falls back gracefully if they are renamed)."""
    cls = getattr(mu, "_modules_copyable", None)
    if cls is None:
        return
    for k, v in list(cls.__dict__.items()):
        if isinstance(v, (_REAL_RLOCK_TYPE, sched.SchedRLock)):
            setattr(cls, k, sched.SchedRLock())
    inst = cls.__dict__.get("__instance__")
    if inst is not None:
        if drop_instance:
            try:
                delattr(cls, "__instance__")
            except AttributeError:
                pass
        else:
            for k, v in list(vars(inst).items()):
                if isinstance(v, (_REAL_RLOCK_TYPE, sched.SchedRLock)):
                    setattr(inst, k, sched.SchedRLock())
            if hasattr(inst, "refcount"):
                inst.refcount = 0
            if hasattr(inst, "patched_table"):
                inst.patched_table = False


class GuardObserver(sched.Observer):
    """Derives the protocol events from call/return of protect_via_deepcopy and of copy.deepcopy called
    directly from it, and snapshots the protocol state whenever it changes."""

    def __init__(self, nthreads):
        self.protect = mu.protect_via_deepcopy.__code__
        self.deepcopy = copy.deepcopy.__code__
        self.engaged = [0] * nthreads
        self.copying = [0] * nthreads
        self.counted = {}                     # id(frame) of deepcopy frames we counted
        self.states = []
        self.snap()

    def wants_return(self, code):
        return code is self.deepcopy

    def snap(self):
        s = {"table": table_state(),
             "engaged": {f"t{i}": v for i, v in enumerate(self.engaged)},
             "copying": {f"t{i}": v for i, v in enumerate(self.copying)}}
        if not self.states or self.states[-1] != s:
            self.states.append(s)

    def on_line(self, tid, frame):
        self.snap()

    def on_call(self, tid, frame):
        code = frame.f_code
        if code is self.protect:
            self.snap()
            self.engaged[tid] += 1
            self.snap()
        elif code is self.deepcopy and frame.f_back is not None and frame.f_back.f_code is self.protect:
            self.snap()
            self.copying[tid] += 1
            self.counted[id(frame)] = True
            self.snap()

    def on_return(self, tid, frame, arg):
        code = frame.f_code
        if code is self.protect:
            self.snap()
            self.engaged[tid] -= 1
            self.snap()
        elif code is self.deepcopy and self.counted.pop(id(frame), None):
            self.snap()
            self.copying[tid] -= 1
            self.snap()


# ------------------------------------------------------------------ operations that copy

def op_pool(rnd):
    base = Outer(inners=[Inner(), Inner(xs=[1])], d={"a": Inner()})
    frag = Fragile()
    ops = {
        "construct": lambda: Outer(),
        "construct_args": lambda: Outer(inner=Inner(xs=[2]), inners=[Inner()], n=3),
        "with_scalar": lambda: base.with_n(5),
        "with_nested_kw": lambda: base.with_inner(xs=[1, 2]),
        "update_nested": lambda: base.update_inner(xs=[3]),
        "transform_nested": lambda: base.transform_inner(lambda i: i.with_xs([9])),
        "with_list_item": lambda: base.with_inners_item(Inner(xs=[4])),
        "with_dict_item": lambda: base.with_d_item("b", Inner()),
        "without_list_item": lambda: base.without_inners_item(0),
        "reset_attr": lambda: base.reset_inner(),
        "reset_all": lambda: base.reset(),
        "update_top": lambda: base.update(n=2, inner=Inner()),
        "deepcopy": lambda: copy.deepcopy(base),
        "deepcopy_depth3": lambda: copy.deepcopy([{"k": (base, [Inner()])}]),
        "protect_module_dict": lambda: mu.protect_via_deepcopy({"m": sys, "l": [os, {"x": Inner()}]}),
        "inplace": lambda: Outer().with_inner(xs=[5], _inplace=True),
        "aborted_post_copy": lambda: frag.with_n(13).with_n(14),
        "aborted_bad_type": lambda: base.with_inner(xs="notalist"),
        # copies cut short INSIDE the guarded region: an argument that cannot be deep-copied, a copy hook raising while a frozen value is copied for mutation
        "aborted_uncopyable_arg": lambda: Outer(d={"a": threading.Lock()}),
        "aborted_uncopyable_protect": lambda: mu.protect_via_deepcopy([sys, {"l": threading.Lock()}]),
        "aborted_transform": lambda: base.transform_inner(lambda i: 1 / 0),
    }
    return ops


def run_history(job):
    """Sequential history: list of op names; returns one trace event."""
    table0, names, sd = job
    rnd = random.Random(sd)
    set_table0(table0)
    reset_guard()
    ops = op_pool(rnd)
    obs = GuardObserver(1)
    outcomes = []
    tr = sched.LineTracer(obs)
    for n in names:
        r = tr.run(ops[n])
        outcomes.append([n, r[0] if r[0] == "ok" else r[1][:60]])
        obs.snap()
    ev = {"kind": "seq", "table0": table0, "ops": names, "states": obs.states, "outcomes": outcomes,
          "final_table": table_state(), "all_ok": all(o[1] == "ok" or o[0].startswith("aborted") for o in outcomes)}
    set_table0("absent")
    return ev


def run_faults(job):
    """For one operation: abort it at every executed library line; each abort is one event."""
    table0, name, sd, stride = job
    rnd = random.Random(sd)
    out = []
    set_table0(table0)
    reset_guard()
    ops = op_pool(rnd)
    tr = sched.LineTracer()
    tr.run(ops[name])
    total = tr.lines
    for n in range(1, total + 1, stride):
        set_table0(table0)
        reset_guard()           # harness-side reset BEFORE building operands: a guard left broken by the previous abort must not break the driver
        ops = op_pool(rnd)
        tr = sched.LineTracer(fault_at=n)
        r = tr.run(ops[name])
        after_abort = table_state()
        # later copies (an ordinary one and one of a value holding modules) must still work in this thread and leave the table as found
        r2 = sched.LineTracer().run(ops["deepcopy_depth3"])
        if r2[0] == "ok":
            r2 = sched.LineTracer().run(ops["protect_module_dict"])
        out.append({"kind": "fault", "table0": table0, "op": name, "line_no": n, "of": total, "loc": list(tr.fault_loc or ("", "", 0, "")),
                    "result": r[0], "final_table": after_abort, "later_ok": r2[0] == "ok", "later_table": table_state()})
    set_table0("absent")
    return out


# ------------------------------------------------------------------ scheduled threads

def thread_targets(n):
    vals = [Outer(inners=[Inner()]), {"m": sys, "o": Outer()}, Outer()]
    fns = [lambda v=vals[0]: copy.deepcopy(v) and "done",
           lambda v=vals[1]: mu.protect_via_deepcopy(v) and "done",
           lambda v=vals[2]: v.with_inner(xs=[1]) and "done"]
    return fns[:n]


GUARD_FUNCS = {"protect_via_deepcopy", "__new__", "__init__", "__enter__", "__exit__"}


def run_schedule(table0, nthreads, policy, first_use):
    sched.patch_locks()
    fns = thread_targets(nthreads)
    set_table0(table0)
    reset_guard(drop_instance=first_use)
    obs = GuardObserver(nthreads)
    s = sched.Sched(fns, policy, obs).run()
    obs.snap()
    ev = {"kind": "threads", "table0": table0, "n": nthreads, "first_use": first_use, "states": obs.states,
          "outcomes": [[f"t{i}", (r[0] if r and r[0] == "ok" else (r[1] if r else "none"))[:80]] for i, r in enumerate(s.results)],
          "final_table": table_state(), "all_ok": all(r and r[0] == "ok" for r in s.results) and not s.deadlock and not s.overrun,
          "schedule": s.choices, "deadlock": s.deadlock}
    locs = s.locs
    set_table0("absent")
    reset_guard()
    return ev, locs


def eligible_steps(locs, choices):
    """Global steps at which the running thread is parked inside the copy-protection code."""
    return [i for i, (loc, c) in enumerate(zip(locs, choices)) if loc and loc[0] in GUARD_FUNCS]


def run_schedules(job):
    """Enumerate schedules with <= maxpre preemptions at guard lines (+ random ones)."""
    table0, nthreads, first_use, maxpre, nrandom, sd, shard, nshards, stride2 = job
    out = []
    base, locs = run_schedule(table0, nthreads, sched.Policy(), first_use)
    if shard == 0:
        out.append(base)
    k = 0
    elig = eligible_steps(locs, base["schedule"])
    for p in elig:
        for to in range(nthreads):
            if to == base["schedule"][p]:
                continue
            k += 1
            if k % nshards != shard:
                continue
            ev, locs1 = run_schedule(table0, nthreads, sched.Policy(pre={p: to}), first_use)
            out.append(ev)
            if maxpre >= 2:
                for qi, q in enumerate(eligible_steps(locs1, ev["schedule"])):
                    if q <= p or (qi + p) % stride2:
                        continue
                    for to2 in range(nthreads):
                        if to2 == ev["schedule"][q]:
                            continue
                        ev2, _ = run_schedule(table0, nthreads, sched.Policy(pre={p: to, q: to2}), first_use)
                        out.append(ev2)
    rnd = random.Random(sd * 7919 + shard)
    for _ in range(nrandom):
        ev, _ = run_schedule(table0, nthreads, sched.RandomPolicy(rnd, rnd.choice([0.02, 0.1, 0.3])), first_use)
        out.append(ev)
    return out
