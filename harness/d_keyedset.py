"""Driver for spec/KeyedSet*.tla (C14): executes model actions on the real KeyedSet and records events."""
import random

from . import common  # noqa: F401
from .d_keyedlist import KItem, KOther

from spec_classes.types import KeyedSet


import operator
import typing


def _k0(t):
    return t[0]


class AItem:
    """A plain hashable value object identified by its attribute `k` (key function: operator.attrgetter('k'), which REJECTS bare keys)."""

    def __init__(self, k, p):
        self.k, self.p = k, p

    def __eq__(self, other):
        return isinstance(other, AItem) and (self.k, self.p) == (other.k, other.p)

    def __hash__(self):
        return hash((self.k, self.p))

    def __repr__(self):
        return f"AItem({self.k!r}, {self.p!r})"


FLAVOURS = {
    "self": (None, str, str),
    "fn": (_k0, tuple, str),
    "spec": (None, KItem, str),
    "unhash": (_k0, list, str),          # unhashable items with hashable keys
    "selfu": (None, typing.Union[int, str], str),          # self-keyed items whose ITEM type is wider than the KEY type: 5 is a fine item, not a fine key
    "attr": (operator.attrgetter("k"), AItem, str),      # key function that raises AttributeError for anything that is not an item
    "fnz": (_k0, tuple, str),            # like fn, but the model key "a" is concretely the FALSY key "" (items ("", p))
}
HASHABLE = {"self", "selfu", "fn", "attr", "fnz"}


def ck(flavour, k):
    return "" if flavour == "fnz" and k == "a" else k


def ak(flavour, k):
    return "a" if flavour == "fnz" and k == "" else k


def expressible(flavour, item):
    if item["bad"] == "key" and flavour in ("self", "spec"):
        return False
    if item["bad"] == "itemk" and flavour in ("self", "selfu"):
        return False
    if flavour in ("self", "selfu") and item["p"] != 0:
        return False
    return True


def gamma_item(flavour, item):
    bad = item["bad"]
    if bad == "item":
        return {"self": 5, "selfu": 2.5, "fn": "zz", "fnz": "zz", "spec": 5, "unhash": "zz", "attr": KItem(k="zz")}[flavour]
    if bad == "key":
        return {"fn": (7, 0), "fnz": (7, 0), "unhash": [7, 0], "attr": AItem(7, 0), "selfu": 5}[flavour]
    if bad == "itemk":          # wrong item type, good key
        if flavour == "attr":
            return KOther(k=item["k"], p=item["p"])          # has attribute k (a good key) but is not an AItem
        return KOther(k=item["k"], p=item["p"]) if flavour == "spec" else [ck(flavour, item["k"]), item["p"]] if flavour in ("fn", "fnz") else (item["k"], item["p"])
    if flavour in ("self", "selfu"):
        return item["k"]
    if flavour == "spec":
        return KItem(k=item["k"], p=item["p"])
    if flavour == "unhash":
        return [item["k"], item["p"]]
    if flavour == "attr":
        return AItem(item["k"], item["p"])
    return (ck(flavour, item["k"]), item["p"])


def alpha_item(flavour, obj):
    if flavour in ("self", "selfu") and isinstance(obj, str):
        return {"k": obj, "p": 0, "bad": "no"}
    if flavour == "spec" and isinstance(obj, KItem):
        return {"k": obj.k, "p": obj.p, "bad": "no"}
    if flavour == "attr" and isinstance(obj, AItem) and isinstance(obj.k, str) and isinstance(obj.p, int):
        return {"k": obj.k, "p": obj.p, "bad": "no"}
    if (flavour in ("fn", "fnz") and isinstance(obj, tuple) or flavour == "unhash" and isinstance(obj, list)) and len(obj) == 2 \
            and isinstance(obj[0], str) and isinstance(obj[1], int):
        return {"k": ak(flavour, obj[0]), "p": obj[1], "bad": "no"}
    return {"k": "?", "p": -1, "bad": "alien:" + repr(obj)[:40]}


def alpha_key(k, flavour=None):
    return ak(flavour, k) if isinstance(k, str) else "?alien:" + repr(k)[:30]


def make(flavour, typed, enforce, items=()):
    keyfn, ity, kty = FLAVOURS[flavour]
    cls = KeyedSet[ity, kty] if typed else KeyedSet
    return cls([gamma_item(flavour, x) for x in items], key=keyfn, enforce_item_equivalence=enforce)


def gamma_arg(flavour, arg):
    return ck(flavour, arg["k"]) if arg["kind"] == "key" else gamma_item(flavour, arg["x"])


def gamma_operand(flavour, o):
    if o["kind"] == "set":
        return set(gamma_item(flavour, x) for x in o["items"])
    return make(flavour, False, o["enforce"], o["items"])


def action_expressible(flavour, typed, a):
    xs = []
    if "x" in a:
        xs.append(a["x"])
    if "arg" in a and a["arg"]["kind"] == "item":
        xs.append(a["arg"]["x"])
    if "o" in a:
        xs += a["o"]["items"]
        if a["o"]["kind"] == "set" and flavour not in HASHABLE:
            return False
    for x in xs:
        if x["bad"] != "no" and not typed:
            return False
        if not expressible(flavour, x):
            return False
    if flavour in ("self", "selfu") and "arg" in a and a["arg"]["kind"] == "key":
        return False      # a bare key IS an item for self-keyed sets (documented ambiguity): use kind=item only
    return True


def project(ks, flavour):
    al = lambda x: alpha_item(flavour, x)
    try:
        items = [al(x) for x in ks]
    except Exception as e:  # noqa: BLE001
        items = [{"k": "?", "p": -1, "bad": "iter:" + type(e).__name__}]
    return {"s": items, "len": len(ks), "keys": [alpha_key(k, flavour) for k in ks.keys()],
            "items": [{"k": alpha_key(k, flavour), "v": al(v)} for k, v in ks.items()]}


BIN = {"or": lambda a, b: a | b, "and": lambda a, b: a & b, "sub": lambda a, b: a - b, "xor": lambda a, b: a ^ b}
CMP = {"le": lambda a, b: a <= b, "lt": lambda a, b: a < b, "ge": lambda a, b: a >= b, "gt": lambda a, b: a > b,
       "eq": lambda a, b: a == b, "isdisjoint": lambda a, b: a.isdisjoint(b)}


def apply(ks, flavour, a):
    with common.deadline(20):
        return _apply(ks, flavour, a)


def _apply(ks, flavour, a):
    op = a["op"]
    al = lambda x: alpha_item(flavour, x)
    extra = {}
    try:
        if op == "add":
            ks.add(gamma_item(flavour, a["x"]))
            ret = []
        elif op == "discard":
            ks.discard(gamma_arg(flavour, a["arg"]))
            ret = []
        elif op == "remove":
            ks.remove(gamma_arg(flavour, a["arg"]))
            ret = []
        elif op == "pop":
            ret = [al(ks.pop())]
        elif op == "clear":
            ks.clear()
            ret = []
        elif op == "getitem":
            ret = [al(ks[gamma_arg(flavour, a["arg"])])]
        elif op == "get":
            v = ks.get(ck(flavour, a["k"]))
            ret = [] if v is None else [al(v)]
        elif op == "contains":
            ret = [gamma_arg(flavour, a["arg"]) in ks]
        elif op in BIN:
            r = BIN[op](ks, gamma_operand(flavour, a["o"]))
            ret = [al(x) for x in r]
            extra = {"r_is_kset": isinstance(r, KeyedSet), "r_keys": [alpha_key(k, flavour) for k in r.keys()] if isinstance(r, KeyedSet) else [],
                     "r_len": len(r)}
        elif op in CMP:
            v = CMP[op](ks, gamma_operand(flavour, a["o"]))
            if not isinstance(v, bool):
                return "NotBool", [], {}
            ret = [v]
        elif op in ("ior", "iand", "isub", "ixor"):
            o = gamma_operand(flavour, a["o"])
            k2 = ks
            if op == "ior":
                k2 |= o
            elif op == "iand":
                k2 &= o
            elif op == "isub":
                k2 -= o
            else:
                k2 ^= o
            if k2 is not ks:
                return "NotSameObject", [], {}
            ret = []
        else:
            raise AssertionError(op)
    except (KeyboardInterrupt, SystemExit):
        raise
    except BaseException as e:  # noqa: BLE001      (BaseTypeError is a BaseException)
        return type(e).__name__, [], {}
    return "ok", ret, extra


def step_event(ks, flavour, typed, enforce, a, meta):
    pre = project(ks, flavour)
    res, ret, extra = apply(ks, flavour, a)
    post = project(ks, flavour)
    ev = {"cfg": {"typed": typed, "enforce": enforce}, "flavour": flavour, "a": a, "pre": pre, "post": post,
          "res": res, "ret": ret, "r_is_kset": True, "r_keys": [], "r_len": 0}
    ev.update(extra)
    ev.update(meta)
    return ev


def run_table(job):
    flavour, typed, enforce, states, acts = job
    acts = [a for a in acts if action_expressible(flavour, typed, a)]
    out = []
    for st in states:
        if not all(expressible(flavour, x) for x in st):
            continue
        for a in acts:
            try:
                ks = make(flavour, typed, enforce, st)
            except BaseException as e:  # noqa: BLE001      (BaseTypeError is a BaseException)
                # the container refuses its own well-typed items: reported once per state as a failing first action
                pre = {"s": list(st), "len": len(st), "keys": [x["k"] for x in st], "items": [{"k": x["k"], "v": x} for x in st]}
                out.append({"cfg": {"typed": typed, "enforce": enforce}, "flavour": flavour, "a": a, "pre": pre, "post": pre,
                            "res": "ConstructionRefused:" + type(e).__name__, "ret": [], "r_is_kset": True, "r_keys": [], "r_len": 0, "src": "table"})
                break
            out.append(step_event(ks, flavour, typed, enforce, a, {"src": "table"}))
    return out


def run_random(job):
    flavour, typed, enforce, sd, n_hist, hist_len, nkeys, npay = job
    rnd = random.Random(sd)
    keys = [chr(ord("a") + i) for i in range(nkeys)]
    pays = [0] if flavour in ("self", "selfu") else list(range(npay))
    uni = [{"k": k, "p": p, "bad": "no"} for k in keys for p in pays]
    bads = [x for x in ({"k": keys[0], "p": 0, "bad": "item"}, {"k": keys[0], "p": 0, "bad": "key"}, {"k": keys[0], "p": 0, "bad": "itemk"}, {"k": keys[-1], "p": 0, "bad": "itemk"})
            if typed and expressible(flavour, x)]
    out = []

    def operand():
        n = rnd.randint(0, 5)
        ks_ = rnd.sample(keys, min(n, len(keys)))
        return {"kind": rnd.choice(["kset", "set"]), "items": [{"k": k, "p": rnd.choice(pays), "bad": "no"} for k in ks_],
                "enforce": rnd.random() < 0.3}

    def arg():
        if rnd.random() < 0.5:
            return {"kind": "key", "k": rnd.choice(keys)}
        return {"kind": "item", "x": rnd.choice(uni)}

    for h in range(n_hist):
        ks = make(flavour, typed, enforce, [])
        for sq in range(hist_len):
            op = rnd.choice(["add"] * 6 + ["discard", "remove", "pop", "getitem", "get", "contains", "or", "and", "sub", "xor",
                                           "le", "ge", "eq", "lt", "gt", "isdisjoint", "ior", "iand", "isub", "ixor"] + (["clear"] if rnd.random() < 0.1 else []))
            a = {"op": op}
            if op == "add":
                a["x"] = rnd.choice(bads) if bads and rnd.random() < 0.05 else rnd.choice(uni)
            elif op in ("discard", "remove", "getitem", "contains"):
                a["arg"] = arg()
            elif op == "get":
                a["k"] = rnd.choice(keys)
            elif op not in ("pop", "clear"):
                a["o"] = operand()
                if a["o"]["kind"] == "set":
                    a["o"]["enforce"] = False
            if not action_expressible(flavour, typed, a):
                continue
            out.append(step_event(ks, flavour, typed, enforce, a, {"src": "random", "hid": f"{flavour}-{typed}-{enforce}-{sd}-{h}", "seq": sq}))
    return out
