"""./check replay <path>: re-execute one recorded violation against the real code (VERIF_REPO, default /repo) and let TLC judge it again.

A replay file is what a VIOLATION line points to: {"property", "clause", "detail", "replay": {"family": ..., inputs}}.  For the
families whose events are single calls from a reconstructible pre-state (spec-class core, KeyedList, KeyedSet, construction) the
call is made again and judged by the family's judge module; for histories and schedules the file itself is the record (the check
re-creates them deterministically from the seed).  Exit 1 if the recorded clause is reported again, 0 if not, 2 if not replayable."""
import json
import os
import shutil

from . import tla


def _judge(module, events, scn=None):
    tmp = tla.scratch("replay-")
    try:
        env = None
        if scn is not None:
            p = os.path.join(tmp, "scn.json")
            with open(p, "w") as f:
                json.dump(scn, f)
            env = {"VERIF_SCN": p}
        res = tla.judge(module, events, jobs=1, env=env)
        return sorted({c for _, c, _ in res["bad"]})
    finally:
        shutil.rmtree(tmp, ignore_errors=True)


def main(path):
    rec = json.load(open(path))
    rp = rec["replay"]
    fam = rp.get("family")
    print(f"property={rec.get('property')} clause={rec.get('clause')} family={fam}")
    print(f"recorded: {rec.get('detail')}")
    clauses = None
    if fam == "specclass":
        from . import d_specclass as D, scenarios as S
        if rp.get("history") is not None:
            print("(a step of a multi-step history: replayed from its recorded pre-state if the constructor reproduces it)")
        w = D.World(rp["scn"])
        ev = D.execute(w, rp["pre"], rp["a"], src="replay", fault_at=rp.get("fault_at"))
        if ev is None:
            print("NOT-REPLAYABLE: the constructor does not reproduce the recorded pre-state (re-run the check with the same VERIF_SEED)")
            return 2
        print("observed now:", json.dumps({k: ev[k] for k in ("res", "recv_post", "result", "same")})[:1500])
        clauses = _judge("J_SpecClass", [ev], {rp["scn"]: S.tla_scenario(S.SCENARIOS[rp["scn"]])})
    elif fam == "keyedlist" and rp.get("kind") == "op" and rp.get("pre") is not None:
        from . import d_keyedlist as D
        kl = D.make(rp["flavour"], rp["cfg"]["typed"], rp["pre"])
        ev = D.step_event(kl, rp["flavour"], rp["cfg"]["typed"], rp["a"], {"src": "replay"})
        print("observed now:", json.dumps({k: ev[k] for k in ("res", "ret", "post")})[:1500])
        clauses = _judge("J_KeyedList", [ev])
    elif fam == "keyedset" and rp.get("hid") is None:
        from . import d_keyedset as D
        ks = D.make(rp["flavour"], rp["cfg"]["typed"], rp["cfg"]["enforce"], rp["pre"])
        ev = D.step_event(ks, rp["flavour"], rp["cfg"]["typed"], rp["cfg"]["enforce"], rp["a"], {"src": "replay"})
        print("observed now:", json.dumps({k: ev[k] for k in ("res", "ret", "post")})[:1500])
        clauses = _judge("J_KeyedSet", [ev])
    elif fam == "construct":
        from . import d_construct as D
        evs = D.run_cases((rp["h"], [{"c": rp["c"], "kws": rp["kws"]}]))
        evs = [e for e in evs if e["positional_key"] == rp.get("positional_key", False)] or evs
        print("observed now:", json.dumps({k: evs[0][k] for k in ("res", "attrs", "posts")})[:1500])
        clauses = _judge("J_Construction", evs, {rp["h"]: D.table(rp["h"], D.build(rp["h"]))})
    if clauses is None:
        print("NOT-REPLAYABLE as a single call (history / schedule / configuration record): the inputs are in the file; the check re-creates them from VERIF_SEED")
        print(json.dumps(rp)[:3000])
        return 2
    print("clauses reported now:", clauses or "none")
    if rec.get("clause") in clauses:
        print(f"REPRODUCED property={rec.get('property')} clause={rec.get('clause')}")
        return 1
    print("NOT-REPRODUCED")
    return 0
