"""Driver for Alias (C18): replays access paths through real Alias / DeprecatedAlias descriptors."""
import copy
import itertools
import random
import warnings
from typing import Dict

from . import common  # noqa: F401
from spec_classes import Alias, DeprecatedAlias, spec_class

NONE = {"t": "none"}
OVERRIDE = "__spec_classes_Alias_a_override"
PATHS = {"t": "t", "o.t": "o.t", "d[k]": 'd["k"]', "o.d[k]": "o.d['k']",
         # a path that continues after a key lookup (both quote styles), and keys containing a dot
         "e[k].t": 'e["k"].t', "e[q].t": "e['q'].t", "e[k.k]": "e['k.k']", "e[k.q]": 'e["k.q"]'}


def alpha(v):
    if v is None:
        return NONE
    if isinstance(v, bool):
        return {"t": "bool", "b": v}
    if isinstance(v, int):
        return {"t": "int", "i": v}
    if isinstance(v, str):
        return {"t": "str", "s": v}
    if isinstance(v, list) and COLL[0]:
        return {"t": "ilist", "e": list(v)} if all(isinstance(x, int) and not isinstance(x, bool) for x in v) else {"t": "alien", "s": repr(v)[:40]}
    if isinstance(v, list):
        return {"t": "list", "n": 1} if v == [1] else {"t": "list", "n": -len(v)}
    return {"t": "alien", "s": repr(v)[:40]}


COLL = [False]          # projecting for a collection-typed alias configuration (lists of ints are values there)


PYNONE = {"t": "pynone"}


def gamma(v):
    if v["t"] == "pynone":
        return None
    if v["t"] == "ilist":
        return list(v["e"])
    return v["i"] if v["t"] == "int" else v["s"]


def double(x):
    return x * 2


class Inner:
    def __init__(self):
        self.t = 1
        self.d = {"k": 1}


def _e():
    return {"k": Inner(), "q": Inner(), "k.k": 1, "k.q": 1}


def make_host(cfg):
    kw = {"passthrough": cfg["pt"]}
    fb = None
    if cfg["tr"]:
        kw["transform"] = double
    if cfg["fb"] == "imm":
        kw["fallback"] = 7
    elif cfg["fb"] == "mut":
        fb = [1]
        kw["fallback"] = fb
    alias = (DeprecatedAlias if cfg["dep"] else Alias)(PATHS[cfg["path"]], **kw)
    if cfg.get("coll"):
        # ts: List[int] is the target, `as_` (singular "a"... the library's own naming) a List[int] alias of it with element helpers
        from typing import List
        alias = Alias("ts", passthrough=cfg["pt"])
        ns = {"__annotations__": {"ts": List[int], "aliases": List[int]}, "aliases": alias}
        cls = spec_class(type("CollHost", (), ns))
        cls(ts=[1])
        return cls, (lambda: cls(ts=[1])), None
    if cfg["host"] == "plain":
        def __init__(self):
            self.t = 1
            self.o = Inner()
            self.d = {"k": 1}
            self.e = _e()
        cls = type("PlainHost", (), {"__init__": __init__, "a": alias})
        return cls, (lambda: cls()), fb
    from typing import Any
    ns = {"__annotations__": {"t": int, "o": Inner, "d": Dict[str, int], "e": Dict[str, Any], "a": int}, "a": alias}
    with warnings.catch_warnings():
        warnings.simplefilter("ignore")
        cls = spec_class(type("SpecHost", (), ns))
        cls(t=1, o=Inner(), d={"k": 1}, e=_e())      # bootstrap outside the recorded region
    return cls, (lambda: cls(t=1, o=Inner(), d={"k": 1}, e=_e())), fb


_EKEY = {"e[k].t": ("k", True), "e[q].t": ("q", True), "e[k.k]": ("k.k", False), "e[k.q]": ("k.q", False)}


def tget(obj, path):
    if path in _EKEY:
        k, attr = _EKEY[path]
        return obj.e[k].t if attr else obj.e[k]
    if path == "t":
        return obj.t
    if path == "o.t":
        return obj.o.t
    if path == "d[k]":
        return obj.d["k"]
    return obj.o.d["k"]


def tset(obj, path, v):
    if path in _EKEY:
        k, attr = _EKEY[path]
        if attr:
            obj.e[k].t = v
        else:
            obj.e[k] = v
        return
    if path == "t":
        obj.t = v
    elif path == "o.t":
        obj.o.t = v
    elif path == "d[k]":
        obj.d["k"] = v
    else:
        obj.o.d["k"] = v


def tdel(obj, path):
    if path in _EKEY:
        k, attr = _EKEY[path]
        if attr:
            del obj.e[k].t
        else:
            del obj.e[k]
        return
    if path == "t":
        del obj.t
    elif path == "o.t":
        del obj.o.t
    elif path == "d[k]":
        del obj.d["k"]
    else:
        del obj.o.d["k"]


def state(obj, path):
    if COLL[0]:
        return {"target": alpha(obj.__dict__.get("ts")), "ov": alpha(obj.__dict__.get("__spec_classes_Alias_aliases_override"))}
    try:
        t = alpha(tget(obj, path))
    except (AttributeError, KeyError):
        t = NONE
    return {"target": t, "ov": (PYNONE if obj.__dict__[OVERRIDE] is None else alpha(obj.__dict__[OVERRIDE])) if OVERRIDE in obj.__dict__ else NONE}


def run_path(cfg, path):
    COLL[0] = bool(cfg.get("coll"))
    if COLL[0]:
        return run_coll_path(cfg, path)
    try:
        cls, new, fb = make_host(cfg)
    except Exception as e:  # noqa: BLE001
        # the alias declaration itself was refused (e.g. its path): every access of the path is reported as failing that way
        init = {"target": {"t": "int", "i": 1}, "ov": NONE}
        return {"cfg": cfg, "steps": [{"a": a, "res": type(e).__name__, "val": NONE, "st": init, "fresh": True, "orig_same": True, "warns": 0} for a in path]}
    with warnings.catch_warnings():
        warnings.simplefilter("ignore")
        obj = new()
    p = cfg["path"]
    steps = []
    for a in path:
        res, val, fresh, orig_same = "ok", None, True, True
        with warnings.catch_warnings(record=True) as w:
            warnings.simplefilter("always")
            try:
                op = a["op"]
                if op == "read_alias":
                    val = obj.a
                    fresh = val is not fb or fb is None
                elif op == "write_alias":
                    obj.a = gamma(a["v"])
                elif op == "delete_alias":
                    del obj.a
                elif op == "read_target":
                    val = tget(obj, p)
                elif op == "write_target":
                    tset(obj, p, gamma(a["v"]))
                elif op == "delete_target":
                    tdel(obj, p)
                else:
                    before = state(obj, p)
                    if op == "cow_alias":
                        new_obj = obj.with_a(gamma(a["v"]))
                    elif op == "cow_target":
                        new_obj = obj.with_t(gamma(a["v"]))
                    else:
                        new_obj = copy.deepcopy(obj)
                    orig_same = state(obj, p) == before and new_obj is not obj
                    obj = new_obj
            except Exception as e:  # noqa: BLE001
                res = type(e).__name__
            nwarn = len([x for x in w if issubclass(x.category, DeprecationWarning)])
        av = PYNONE if (val is None and res == "ok" and a["op"] in ("read_alias", "read_target")) else alpha(val)
        if isinstance(val, list):
            val.append(99)          # any sharing with the fallback object shows up at the next read
        with warnings.catch_warnings():
            warnings.simplefilter("ignore")
            steps.append({"a": a, "res": res, "val": av, "st": state(obj, p), "fresh": fresh, "orig_same": orig_same, "warns": nwarn})
    return {"cfg": cfg, "steps": steps}


def run_coll_path(cfg, path):
    cls, new, _ = make_host(cfg)
    obj = new()
    steps = []
    for a in path:
        res, val, orig_same = "ok", None, True
        try:
            op = a["op"]
            if op == "read_alias":
                val = obj.aliases
            elif op == "write_alias":
                obj.aliases = gamma(a["v"])
            elif op == "delete_alias":
                del obj.aliases
            elif op == "read_target":
                val = obj.ts
            elif op == "write_target":
                obj.ts = gamma(a["v"])
            else:
                before = state(obj, "t")
                if op == "cow_alias":
                    new_obj = obj.with_aliases(gamma(a["v"]))
                elif op == "cow_item_alias":
                    new_obj = obj.with_alias(gamma(a["v"]))
                elif op == "cow_item_target":
                    new_obj = obj.with_t(gamma(a["v"]))
                else:
                    new_obj = copy.deepcopy(obj)
                # the receiver is as before AND shares neither its target list nor its override list with the copy
                shared = any(x is not None and any(x is y for y in (new_obj.__dict__.get("ts"), new_obj.__dict__.get("__spec_classes_Alias_aliases_override")))
                             for x in (obj.__dict__.get("ts"), obj.__dict__.get("__spec_classes_Alias_aliases_override")))
                orig_same = state(obj, "t") == before and new_obj is not obj and not shared
                obj = new_obj
        except Exception as e:  # noqa: BLE001
            res = type(e).__name__
        steps.append({"a": a, "res": res, "val": alpha(val), "st": state(obj, "t"), "fresh": True, "orig_same": orig_same, "warns": 0})
    COLL[0] = False
    return {"cfg": cfg, "steps": steps}


def enabled(cfg, a):
    if cfg.get("coll"):
        return True
    if a["op"] == "cow_alias":
        return cfg["host"] == "spec"
    if a["op"] == "write_alias" and a["v"]["t"] == "pynone":
        return not cfg["pt"]
    if a["op"] == "cow_target":
        return cfg["host"] == "spec" and cfg["path"] == "t"
    return True


def run(job):
    cfgs, acts, L, n_random, rlen, sd = job[:6]
    stride = job[6] if len(job) > 6 else 1          # thorough: all paths of length L-1, every stride-th path of length L
    rnd = random.Random(sd)
    out = []
    for cfg in cfgs:
        ea = [a for a in acts if enabled(cfg, a)]
        if stride > 1:
            for path in itertools.product(ea, repeat=L - 1):
                out.append(run_path(cfg, list(path)))
        for idx, path in enumerate(itertools.product(ea, repeat=L)):
            if stride > 1 and (idx + sd) % stride:
                continue
            out.append(run_path(cfg, list(path)))
        for _ in range(n_random):
            out.append(run_path(cfg, [rnd.choice(ea) for _ in range(rlen)]))
    return out
