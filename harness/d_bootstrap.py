"""Driver for C19: lazily bootstrapped classes used for the first time by several scheduled threads."""
import dataclasses
import inspect
import random
import textwrap

from . import common, sched
from spec_classes import Attr, spec_class  # noqa: F401
from spec_classes.types import MISSING
from spec_classes.utils.type_checking import type_label

HEADER = """
import dataclasses
from dataclasses import field
from typing import Any, Dict, List, Optional, Set
from spec_classes import Attr, spec_class, spec_property
"""

# class sources; {D} is replaced by "@spec_class" (lazy) or "@spec_class(bootstrap=True)" (eager reference)
SCENARIOS = {
    "attr_decls": ("""
{D}
class C:
    x: List[int] = Attr(default_factory=list)
    y: int = Attr(default=3, repr=False)
    w: int = Attr(default=1, compare=False)
    z: str = "s"
""", ["C"], {"C": "none"}),
    "field_decls": ("""
{D}
class C:
    x: List[int] = field(default_factory=list)
    y: int = field(default=2, compare=False)
    k: Dict[str, int] = field(default_factory=dict, repr=False)
""", ["C"], {"C": "none"}),
    "lazy_parent": ("""
{D}
class P:
    a: int = Attr(default=1, repr=False)
    b: List[int] = Attr(default_factory=list)

{D}
class C(P):
    c: Set[int] = Attr(default_factory=set)
    a = 5
""", ["P", "C"], {"P": "none", "C": "P"}),
    "lazy_parent_split": ("""
{D}
class P:
    a: int = Attr(default=1, repr=False)
    b: List[int] = Attr(default_factory=list)

{D}
class C(P):
    c: Set[int] = Attr(default_factory=set)
""", ["P", "C"], {"P": "none", "C": "P"}),
    "own_new": ("""
{D}
class C:
    x: int = Attr(default=7)
    items: List[str] = Attr(default_factory=list)

    def __new__(cls, *args, **kwargs):
        self = super().__new__(cls)
        return self
""", ["C"], {"C": "none"}),
    "plain_subclass": ("""
{D}
class C:
    x: int = Attr(default=7, repr=False)
    ys: List[int] = field(default_factory=list)

class D(C):
    x = 9
""", ["C"], {"C": "none"}),
    # __new__ inherited from ANOTHER base of a plain subclass: the lazy hook must stay cooperative once it has removed itself
    "mixin_new": ("""
class Mixin:
    def __new__(cls, *args, **kwargs):
        self = super().__new__(cls)
        self.__dict__["made_by_mixin"] = True
        return self

{D}
class C:
    x: int = Attr(default=7)
    items: List[str] = Attr(default_factory=list)

class D(C, Mixin):
    pass
""", ["C"], {"C": "none"}),
    # types a (lazy) parent declares only through its decorator, re-listed by name in the child: they exist only once the parent is bootstrapped
    "decorator_typed_parent": ("""
@spec_class(attrs_typed={"x": int, "tags": List[str]}, init_overflow_attr="extra"{B})
class P:
    x = 1
    tags = []

@spec_class(attrs={"x", "extra"}{B})
class C(P):
    x = 5
""", ["P", "C"], {"P": "none", "C": "P"}),
    # a plain subclass whose own __new__ forwards its arguments up the MRO (plain Python: object.__new__ refuses them)
    "sub_new_forwards": ("""
{D}
class C:
    x: int = Attr(default=7)

class D(C):
    def __new__(cls, *args, **kwargs):
        return super().__new__(cls, *args, **kwargs)

D_KW = {"x": 2}
""", ["C"], {"C": "none"}),
    "keyed_nested": ("""
{D}
class P:
    k: str = Attr(default="key")
    n: int = 0

{D}
class C:
    p: P = Attr(default_factory=P)
    ps: List[P] = Attr(default_factory=list, repr=False)
""", ["P", "C"], {"P": "none", "C": "none"}),
}
PREFIXES = ("with_", "update_", "transform_", "reset_", "without_")
TOP = {"update", "transform", "reset", "__init__", "__repr__", "__eq__", "__spec_class_init__", "__spec_class_repr__",
       "__spec_class_eq__", "__setattr__", "__delattr__", "__getattr__", "__deepcopy__"}


def build(name, eager):
    src, classes, parent = SCENARIOS[name]
    ns = {"__name__": f"scn_{name}"}
    exec(HEADER + textwrap.dedent(src).replace("{D}", "@spec_class(bootstrap=True)" if eager else "@spec_class").replace("{B}", ", bootstrap=True" if eager else ""), ns)
    return ns, classes, parent


def inst_obs(ns, tgt):
    """What constructing instances looks like (of the class, and of its plain subclass D where the scenario has one)."""
    out = repr(ns[tgt]())
    if "D" in ns and tgt == "C":
        try:
            d = ns["D"](**ns.get("D_KW", {}))
            out += " | D: " + repr(d) + " " + repr(sorted(k for k in d.__dict__ if not k.startswith("__")))
        except Exception as e:  # noqa: BLE001
            out += " | D: raises " + type(e).__name__
    return out


def describe(cls):
    m = cls.__spec_class__
    d = {"owner": m.owner.__name__, "key": m.key, "frozen": m.frozen, "dnc": m.do_not_copy, "overflow": m.init_overflow_attr,
         "post_init": bool(m.post_init), "attrs": [], "helpers": {}, "class_defaults": {}}
    for name, a in m.attrs.items():
        d["attrs"].append({"name": name, "type": type_label(a.type), "default": repr(a.default),
                           "factory": None if a.default_factory is MISSING else getattr(a.default_factory, "__name__", "factory"),
                           "init": a.init, "repr": a.repr, "compare": a.compare, "dnc": a.do_not_copy,
                           "invby": list(a.invalidated_by or ()), "owner": a.owner.__name__ if a.owner else None,
                           "masked": a.is_masked, "item_name": a.item_name if a.is_collection else None, "prepare": bool(a.prepare)})
        d["class_defaults"][name] = _stable_repr(cls.__dict__.get(name, "<absent>"))
    for n in sorted(dir(cls)):
        if n.startswith(PREFIXES) or n in TOP:
            try:
                d["helpers"][n] = str(inspect.signature(getattr(cls, n)))
            except (TypeError, ValueError):
                d["helpers"][n] = "<no signature>"
    d["dataclass_fields"] = list(cls.__dataclass_fields__)
    return common.canon(d)


def _stable_repr(v):
    if isinstance(v, (Attr, dataclasses.Field)):
        return "<declaration " + type(v).__name__ + ">"
    return repr(v)


def projection(ns, classes):
    """Bootstrap-relevant state of the class objects (cheap; evaluated after every scheduler step)."""
    out = {}
    for c in classes:
        cd = ns[c].__dict__
        meta = cd.get("__spec_class__")
        st = {"meta": type(meta).__name__ if meta is not None else "none"}
        for a in cd.get("__annotations__", {}):
            v = cd.get(a, MISSING)
            st["decl:" + a] = "declared" if isinstance(v, (Attr, dataclasses.Field)) else "consumed"
        # (registered helper names are NOT part of the projection: lazy method descriptors legitimately
        #  write built methods into the accessing (sub)class's dict on first use, long after publication)
        out[c] = st
    return out


class BootObserver(sched.Observer):
    def __init__(self, ns, classes):
        self.ns = ns
        self.classes = classes
        self.prev = projection(ns, classes)
        self.initial = self.prev
        self.events = []

    def after_step(self, tid):
        cur = projection(self.ns, self.classes)
        if cur != self.prev:
            for c in self.classes:
                for k, v in cur[c].items():
                    if self.prev[c].get(k) != v:
                        self.events.append({"ev": "change", "t": f"t{tid}", "c": c, "what": k})
            self.prev = cur

    def observe(self, tid, c):
        self.events.append({"ev": "observe", "t": f"t{tid}", "c": c, "what": ""})


TRIGGERS = ["inst", "meta", "fields", "inst"]


def run_execution(name, triggers, policy, eager_ref):
    sched.patch_locks()
    ns, classes, parent = build(name, eager=False)
    obs = BootObserver(ns, classes)
    target = "C"

    def mk(i, trig):
        tgt = "P" if trig.startswith("p") else target          # the class this thread uses (and then observes)

        def fn():
            C = ns[target]
            if trig == "inst":
                C()
            elif trig == "meta":
                C.__spec_class__
            elif trig == "fields":
                C.__dataclass_fields__
            elif trig == "sub":
                ns["D"]()
            elif trig == "pinst":          # first use of the (lazy) PARENT while another thread first-uses the child
                ns["P"]()
            elif trig == "pmeta":
                ns["P"].__spec_class__
            obs.observe(i, tgt)
            with sched.atomic():        # the observation itself is taken in one step
                return {"desc": describe(ns[tgt]), "inst": inst_obs(ns, tgt)}
        return fn

    s = sched.Sched([mk(i, t) for i, t in enumerate(triggers)], policy, obs).run()
    obs.after_step(s.choices[-1] if s.choices else 0)
    # publication point of each class = after its last change
    events = obs.events
    last_change = {}
    for i, e in enumerate(events):
        if e["ev"] == "change":
            last_change[e["c"]] = i
    out_events = []
    for i, e in enumerate(events):
        out_events.append(e)
        for c, li in last_change.items():
            if li == i:
                out_events.append({"ev": "publish", "t": e["t"], "c": c, "what": ""})
    threads = []
    for i, r in enumerate(s.results):
        if r and r[0] == "ok":
            threads.append({"t": f"t{i}", "trigger": triggers[i], "outcome": "ok", "desc": common.digest(r[1]["desc"]), "inst": r[1]["inst"]})
        else:
            threads.append({"t": f"t{i}", "trigger": triggers[i], "outcome": str((r[1] if r and r[1] else (r[0] if r else "none")))[:120], "desc": "", "inst": ""})
        want = eager_ref[2]["P" if triggers[i].startswith("p") else target]          # what the eager, sequential class of that name looks like
        threads[-1]["want_desc"], threads[-1]["want_inst"] = common.digest(want[0]), want[1]
    try:
        final_desc, final_inst = common.digest(describe(ns[target])), inst_obs(ns, target)
    except Exception as e:  # noqa: BLE001
        final_desc, final_inst = "raised:" + type(e).__name__, ""
    decls = {c: {k: v for k, v in obs.initial[c].items() if k.startswith("decl:") and v == "declared"} for c in classes}
    ev = {"scenario": name, "triggers": triggers, "classes": classes, "parent": parent,
          "decls": {c: sorted(decls[c]) for c in classes},
          "eager": {"desc": common.digest(eager_ref[0]), "inst": eager_ref[1]},
          "threads": threads, "events": out_events, "final": {"desc": final_desc, "inst": final_inst},
          "schedule": s.choices, "deadlock": s.deadlock or s.overrun, "hang": s.hang or ""}
    return ev, s.locs


def eager_reference(name):
    ns, classes, _ = build(name, eager=True)
    C = ns["C"]
    return describe(C), inst_obs(ns, "C"), {c: (describe(ns[c]), inst_obs(ns, c)) for c in ("C", "P") if c in ns}


SHARED_FUNCS = {"bootstrap", "build_attr_spec", "__get__", "__call__", "__new__", "for_class", "register_method", "register_methods",
                "from_attr_value", "get_methods_for_spec_class", "__set_name__"}


def eligible(locs, choices, mode):
    if mode == "any":
        return list(range(len(choices)))
    return [i for i, loc in enumerate(locs) if loc and loc[0] in SHARED_FUNCS]


def run_schedules(job):
    """All executions of one (scenario, trigger combination, shard).  Watchdog: the scheduler detects deadlocks on the locks it knows
    (sched.patch_locks); a thread blocked at OS level on a lock it does not know would stall the job silently, so the whole job runs
    under a deadline and a stall is reported as a machinery failure naming the job (never a silent hang, never a verdict)."""
    try:
        with common.deadline(3000 if job[2] == "any" else 600):
            return _run_schedules(job)
    except common.HangError:
        raise RuntimeError(f"schedule job {job[:2]} did not complete within its deadline: a thread is blocked on a lock the scheduler does not control") from None


def _run_schedules(job):
    name, triggers, mode, maxpre, nrandom, sd, shard, nshards, stride2 = job
    ref = eager_reference(name)
    out = []
    n = len(triggers)
    base, locs = run_execution(name, triggers, sched.Policy(), ref)
    if shard == 0:
        out.append(base)
    k = 0
    for p in eligible(locs, base["schedule"], mode):
        for to in range(n):
            if to == base["schedule"][p]:
                continue
            k += 1
            if k % nshards != shard:
                continue
            ev, locs1 = run_execution(name, triggers, sched.Policy(pre={p: to}), ref)
            out.append(ev)
            if maxpre >= 2:
                for qi, q in enumerate(eligible(locs1, ev["schedule"], "shared")):
                    if q <= p or (qi + p) % stride2:
                        continue
                    for to2 in range(n):
                        if to2 == ev["schedule"][q]:
                            continue
                        ev2, _ = run_execution(name, triggers, sched.Policy(pre={p: to, q: to2}), ref)
                        out.append(ev2)
    rnd = random.Random(sd * 104729 + shard)
    for _ in range(nrandom):
        ev, _ = run_execution(name, triggers, sched.RandomPolicy(rnd, rnd.choice([0.01, 0.05, 0.2])), ref)
        out.append(ev)
    return out
