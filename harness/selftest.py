"""./check selftest: a fast end-to-end demonstration that the machinery works on this machine.
(1) every specification module parses (SANY); (2) one complete check runs and holds (C17: MC + drive + judge + binding canaries);
(3) one kept seeded change is applied to a scratch copy of /repo outside /repo and /verif and the check must report it."""
import glob
import os
import subprocess
import sys

from . import common

VERIF = os.path.dirname(os.path.dirname(os.path.abspath(__file__)))


def main():
    ok = True
    r = subprocess.run(["./setup.sh"], cwd=VERIF, capture_output=True, text=True)
    print("setup:", "ok" if r.returncode == 0 else "FAILED\n" + r.stdout[-2000:] + r.stderr[-2000:])
    ok &= r.returncode == 0
    r = subprocess.run(["./check", "C17"], cwd=VERIF, capture_output=True, text=True)
    print("C17 on the tree:", (r.stdout.strip().splitlines() or ["<no output>"])[-1])
    ok &= r.returncode == 0
    import json
    seeds = [d for d in sorted(glob.glob(os.path.join(VERIF, "seeded", "C17-*"))) if json.load(open(os.path.join(d, "meta.json")))["property"] == "C17"]
    if seeds:
        d = seeds[0]
        r = subprocess.run(["tools/try_mutant.sh", os.path.join(d, "patch.diff"), os.path.join(d, "demo.py"), "C17"], cwd=VERIF, capture_output=True, text=True)
        caught = "check C17 on mutant: exit 1" in r.stdout
        print(f"seeded change {os.path.basename(d)}:", "reported" if caught else "NOT REPORTED\n" + r.stdout[-1500:])
        ok &= caught
    print("selftest", "passed" if ok else "FAILED")
    return 0 if ok else 2
