"""Deterministic cooperative scheduler for real threads, and a line-level fault injector.

Managed threads run under sys.settrace; at every `line` event inside the library (spec_classes/*)
the running thread hands control back to the controller, which releases exactly one thread at a
time as the policy says.  The controller's step counter is the only clock.  Locks the library
creates (threading.RLock imported into its modules) are replaced by SchedRLock, so a thread that
would block is marked not runnable instead of dead-locking the controller.
"""
import os
import sys
import threading

from . import common

LIB = os.path.join(os.path.realpath(common.REPO), "spec_classes") + os.sep


def is_lib(filename):
    return filename.startswith(LIB) or (os.sep + "spec_classes" + os.sep) in filename and not filename.startswith(common.VERIF)


class SchedAbort(BaseException):
    pass


class InjectedFault(Exception):
    pass


_CURRENT = None          # the Sched instance currently running (at most one)
_TL = threading.local()


def current_tid():
    return getattr(_TL, "tid", None)


class atomic:
    """with sched.atomic(): the calling managed thread runs without yielding (harness-side bookkeeping)."""

    def __enter__(self):
        _TL.atomic = getattr(_TL, "atomic", 0) + 1

    def __exit__(self, *a):
        _TL.atomic -= 1


class SchedRLock:
    """Reentrant lock that cooperates with the scheduler (never blocks an OS thread)."""

    def __init__(self):
        self.owner = None
        self.count = 0

    def _me(self):
        tid = current_tid()
        return ("t", tid) if tid is not None else ("os", threading.get_ident())

    def acquire(self, blocking=True, timeout=-1):
        me = self._me()
        sch = _CURRENT
        while self.owner is not None and self.owner != me:
            if sch is None or current_tid() is None:
                raise RuntimeError("SchedRLock contended outside the scheduler")
            if not blocking:
                return False
            sch._block(current_tid(), self)
        self.owner = me
        self.count += 1
        return True

    def release(self):
        if self.owner != self._me():
            raise RuntimeError("cannot release un-acquired lock")
        self.count -= 1
        if self.count == 0:
            self.owner = None

    __enter__ = acquire

    def __exit__(self, *a):
        self.release()


class Observer:
    """Hooks called in the running thread (only one managed thread runs at a time)."""

    def on_call(self, tid, frame):
        pass

    def on_return(self, tid, frame, arg):
        pass

    def on_line(self, tid, frame):
        pass

    def wants_return(self, code):
        return False

    def after_step(self, tid):
        """Called by the controller after thread `tid` ran one step (no managed thread is running)."""


class Policy:
    """Default: run the current thread while it is runnable, else the lowest runnable id; `pre` maps
    a global step number to the thread to switch to at that step (a preemption)."""

    def __init__(self, pre=None, forced=None):
        self.pre = dict(pre or {})
        self.forced = forced        # explicit list of choices (replay)

    def choose(self, step, current, runnable):
        if self.forced is not None and step < len(self.forced) and self.forced[step] in runnable:
            return self.forced[step]
        want = self.pre.get(step)
        if want is not None and want in runnable:
            return want
        if current in runnable:
            return current
        return runnable[0]


class RandomPolicy(Policy):
    def __init__(self, rnd, p_switch=0.1):
        super().__init__()
        self.rnd = rnd
        self.p = p_switch

    def choose(self, step, current, runnable):
        if current in runnable and self.rnd.random() >= self.p:
            return current
        return self.rnd.choice(runnable)


class Sched:
    """Baton-passing scheduler: the running thread itself takes the scheduling decision at each yield
    point and only hands over (semaphores) when the policy picks another thread."""

    def __init__(self, fns, policy, observer=None, max_steps=400000, watchdog=60):
        self.fns = fns
        self.policy = policy
        self.obs = observer or Observer()
        self.max_steps = max_steps
        self.watchdog = watchdog
        n = len(fns)
        self.go = [threading.Semaphore(0) for _ in range(n)]
        self.finished = threading.Event()
        self.state = ["ready"] * n
        self.waiting = [None] * n
        self.where = [None] * n           # (function name, line) where each thread is parked
        self.results = [None] * n
        self.choices = []
        self.locs = []                    # location of the chosen thread at each decision
        self.step = 0
        self.abort = False
        self.deadlock = False
        self.overrun = False
        self.hang = None

    # ---- decisions (always executed by the thread holding the baton, or by main at start)
    def _runnable(self):
        out = []
        for i, st in enumerate(self.state):
            if st != "ready":
                continue
            lk = self.waiting[i]
            if lk is not None and lk.owner is not None and lk.owner != ("t", i):
                continue
            out.append(i)
        return out

    def _stop(self):
        self.abort = True
        for i, st in enumerate(self.state):
            if st != "done":
                self.go[i].release()
        self.finished.set()

    def _pick(self, current):
        """Returns the thread to run next, or None when the execution is over / stuck."""
        runnable = self._runnable()
        if not runnable:
            if not all(st == "done" for st in self.state):
                self.deadlock = True
            return None
        if self.step >= self.max_steps:
            self.overrun = True
            return None
        nxt = self.policy.choose(self.step, current, runnable)
        self.choices.append(nxt)
        self.locs.append(self.where[nxt])
        self.step += 1
        return nxt

    def _handoff(self, tid):
        self.obs.after_step(tid)
        nxt = self._pick(tid)
        if nxt is None:
            self._stop()
            raise SchedAbort()
        if nxt != tid:
            self.go[nxt].release()
            self.go[tid].acquire()
            if self.abort:
                raise SchedAbort()

    # ---- thread side
    def _yield(self, tid):
        if getattr(_TL, "atomic", 0):
            return
        self._handoff(tid)

    def _block(self, tid, lock):
        self.waiting[tid] = lock
        try:
            self._handoff(tid)
        finally:
            self.waiting[tid] = None

    def _local(self, frame, event, arg):
        tid = _TL.tid
        if event == "line":
            self.where[tid] = (frame.f_code.co_name, frame.f_lineno)
            self.obs.on_line(tid, frame)
            self._yield(tid)
        elif event == "return":
            self.obs.on_return(tid, frame, arg)
        return self._local

    def _ret_only(self, frame, event, arg):
        if event == "return":
            self.obs.on_return(_TL.tid, frame, arg)
        return self._ret_only

    def _global(self, frame, event, arg):
        if event != "call":
            return None
        code = frame.f_code
        self.obs.on_call(_TL.tid, frame)
        if is_lib(code.co_filename):
            return self._local
        if self.obs.wants_return(code):
            return self._ret_only
        return None

    def _main(self, tid):
        _TL.tid = tid
        _TL.atomic = 0
        self.go[tid].acquire()
        try:
            if self.abort:
                raise SchedAbort()
            sys.settrace(self._global)
            try:
                v = self.fns[tid]()
            finally:
                sys.settrace(None)
            self.results[tid] = ("ok", v)
        except SchedAbort:
            self.results[tid] = ("aborted", None)
        except BaseException as e:  # noqa: BLE001
            self.results[tid] = ("raised", type(e).__name__ + ": " + str(e)[:200])
        finally:
            _TL.tid = None
            self.state[tid] = "done"
            if not self.abort:
                self.obs.after_step(tid)
                nxt = self._pick(tid)
                if nxt is None:
                    self._stop()
                else:
                    self.go[nxt].release()

    def run(self):
        global _CURRENT
        if _CURRENT is not None:
            raise RuntimeError("nested Sched")
        _CURRENT = self
        threads = [threading.Thread(target=self._main, args=(i,), daemon=True) for i in range(len(self.fns))]
        try:
            for t in threads:
                t.start()
            first = self._pick(0)
            if first is None:
                self._stop()
            else:
                self.go[first].release()
            if not self.finished.wait(timeout=self.watchdog):
                # a managed thread is stuck outside the scheduler's control (real lock, C call): report, never hang
                import traceback
                self.hang = "".join("".join(traceback.format_stack(f)[-6:]) for f in sys._current_frames().values())[-3000:]
                self.deadlock = True
                self._stop()
            for t in threads:
                t.join(timeout=5)
        finally:
            _CURRENT = None
        return self


def patch_locks():
    """Make the library create scheduler-aware locks (harness-side monkeypatch, no repo change)."""
    import importlib
    sc = importlib.import_module("spec_classes.spec_class")
    sc = sys.modules["spec_classes.spec_class"]      # the package attribute of that name is the decorator class
    mu = sys.modules["spec_classes.utils.mutation"]
    mu.RLock = SchedRLock
    sc.RLock = SchedRLock
    real = type(threading.RLock())
    for mod in (mu, sc):                       # module-level lock objects created at import time
        for k, v in list(vars(mod).items()):
            if isinstance(v, real):
                setattr(mod, k, SchedRLock())
    if hasattr(mu, "Lock"):
        mu.Lock = SchedRLock
    # ... and lock objects held by classes of those modules (class attributes created at class definition, and the locks of
    # singleton instances that already exist): a thread paused by the scheduler while holding a REAL lock blocks every other
    # thread's OS-level acquire for ever
    import inspect as _inspect
    for mod in (mu, sc):
        for cls in [v for v in vars(mod).values() if _inspect.isclass(v) and v.__module__ == mod.__name__]:
            for k, v in list(vars(cls).items()):
                if isinstance(v, real):
                    setattr(cls, k, SchedRLock())
                elif k == "__instance__" and hasattr(v, "__dict__"):
                    for ik, iv in list(vars(v).items()):
                        if isinstance(iv, real):
                            setattr(v, ik, SchedRLock())


# ----------------------------------------------------------------------------- single-thread tracing / faults

SUSPENDED = [0]


class untraced:
    """Harness bookkeeping that happens to run library code (projecting a KeyedList iterates it, building an argument constructs a
    spec class) inside a traced region: its lines are neither counted nor used as fault points."""

    def __enter__(self):
        SUSPENDED[0] += 1

    def __exit__(self, *exc):
        SUSPENDED[0] -= 1
        return False


class LineTracer:
    """Runs fn() in the calling thread under settrace; counts library line events, optionally raises
    InjectedFault at the n-th one, and feeds an Observer."""

    def __init__(self, observer=None, fault_at=None):
        self.obs = observer or Observer()
        self.fault_at = fault_at
        self.lines = 0
        self.fault_loc = None

    def _local(self, frame, event, arg):
        if event == "line":
            if SUSPENDED[0]:
                return self._local
            self.lines += 1
            self.obs.on_line(0, frame)
            if self.fault_at is not None and self.lines == self.fault_at:
                import linecache
                self.fault_loc = (os.path.basename(frame.f_code.co_filename), frame.f_code.co_name, frame.f_lineno,
                                  linecache.getline(frame.f_code.co_filename, frame.f_lineno).strip()[:80])
                self.fault_at = None
                raise InjectedFault(f"injected at {self.fault_loc}")
        elif event == "return":
            self.obs.on_return(0, frame, arg)
        return self._local

    def _ret_only(self, frame, event, arg):
        if event == "return":
            self.obs.on_return(0, frame, arg)
        return self._ret_only

    def _global(self, frame, event, arg):
        if event != "call":
            return None
        self.obs.on_call(0, frame)
        if is_lib(frame.f_code.co_filename):
            return self._local
        if self.obs.wants_return(frame.f_code):
            return self._ret_only
        return None

    def run(self, fn):
        old = sys.gettrace()
        sys.settrace(self._global)
        try:
            return ("ok", fn())
        except InjectedFault as e:
            return ("injected", str(e))
        except BaseException as e:  # noqa: BLE001
            return ("raised", type(e).__name__ + ": " + str(e)[:200])
        finally:
            sys.settrace(old)
