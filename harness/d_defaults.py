"""Driver for C08: histories over a hierarchy that declares defaults in every documented way."""
import copy
import random

from . import common, scenarios as S
from .d_specclass import Registry, World

L, I, D_, SET, OBJ = S.L, S.I, S.D, S.SET, S.OBJ
LEAF = S.cls([S.attr("v", S.TINT, "lit", I(0)), S.attr("ws", S.TL(S.TINT), "lit", L(), item="w")])


def LF(v=0, *ws):
    return OBJ("Leaf", v=I(v), ws=L(*[I(w) for w in ws]))


BASE_ATTRS = [
    S.attr("a", S.TL(S.TINT), "lit", L(I(1)), item="a_item"),
    S.attr("b", S.TD(S.TSTR, S.TINT), "attr", D_((S.S("k"), I(1))), item="b_item"),
    S.attr("c", S.TS(S.TINT), "factory", SET(), item="c_item"),
    S.attr("d", S.TL(S.TINT), "fieldfactory", L(), item="d_item"),
    S.attr("e", S.TU("Leaf"), "lit", LF(0)),
    S.attr("f", S.TINT, "lit", I(3)),
    S.attr("g", S.TL(S.TINT), item="g_item"),
    S.attr("m", S.TL(S.TU("Leaf")), "factory", L(), item="m_item"),
    S.attr("kl", S.TKL(S.TU("KLeaf"), S.TSTR), "factory", S.KL(), item="kl_item"),
    # dictionaries whose VALUES are mutable (a copy of the dictionary alone is not enough)
    S.attr("dd", S.TD(S.TSTR, S.TU("Leaf")), "lit", D_((S.S("z"), LF(0))), item="dd_item"),
    S.attr("dl", S.TD(S.TSTR, S.TL(S.TINT)), "factory", D_(), item="dl_item"),
]
KLEAF = S.cls([S.attr("k", S.TSTR), S.attr("ws", S.TL(S.TINT), "lit", L(), item="w")], key="k")


def KLF(k, *ws):
    return OBJ("KLeaf", k=S.S(k), ws=L(*[I(w) for w in ws]))


def inh(a, redefault=None):
    b = dict(a)
    b["inherited"] = True
    b["redefault"] = redefault
    return b


SCN = {"root": "Base", "classes": {
    "Leaf": LEAF,
    "KLeaf": KLEAF,
    "Base": S.cls(BASE_ATTRS),
    "SubSpec": S.cls([inh(a, L(I(2)) if a["name"] == "a" else None) for a in BASE_ATTRS] + [S.attr("h", S.TL(S.TINT), "lit", L(I(5)), item="h_item")], bases=["Base"]),
    "SubPlain": S.cls([inh(a, L(I(7)) if a["name"] == "a" else LF(9) if a["name"] == "e" else None) for a in BASE_ATTRS], bases=["Base"], plain=True),
    # a parent that shares some attributes by design (do_not_copy) and a decorated subclass that does not ask for that: the subclass copies
    "DncBase": S.cls([dict(a, dnc=a["name"] in ("e", "g", "m")) for a in BASE_ATTRS]),
    "SubOfDnc": S.cls([inh(a) for a in BASE_ATTRS], bases=["DncBase"]),
    # a parent whose hand-written constructor stores what it is given by plain assignment, and a decorated subclass (generated constructor)
    "HandBase": S.cls(BASE_ATTRS, extra_body=["def __init__(self, **kw):\n    for k, v in kw.items():\n        setattr(self, k, v)"]),
    "SubOfHand": S.cls([inh(a) for a in BASE_ATTRS], bases=["HandBase"]),
    "SubPlain2": S.cls([inh(a, SET(I(4)) if a["name"] == "c" else None) for a in BASE_ATTRS] + [inh(S.attr("h", S.TL(S.TINT), "lit", L(I(5)), item="h_item"))], bases=["SubSpec"], plain=True),
}}


def defaults_table(world):
    """DT for DefaultsOps: MRO from the real classes; body = the defaults each class body declares."""
    dt = {}
    for cname, c in SCN["classes"].items():
        body = {}
        for a in c["attrs"]:
            if a.get("inherited"):
                body[a["name"]] = {"has": a.get("redefault") is not None, "v": a.get("redefault") or S.MISSING}
            else:
                body[a["name"]] = {"has": a["dk"] != "none", "v": a["dv"]}
        mro = [k.__name__ for k in world.classes[cname].__mro__ if k.__name__ in SCN["classes"]]
        dt[cname] = {"mro": mro, "body": body}
    return dt


POKES = {
    "a": lambda o: o.a.append(9), "b": lambda o: o.b.__setitem__("z", 9), "c": lambda o: o.c.add(9), "d": lambda o: o.d.append(9),
    "e.v": lambda o: setattr(o.e, "v", (o.e.v + 1) % 3), "e.ws": lambda o: o.e.ws.append(9), "g": lambda o: o.g.append(9), "h": lambda o: o.h.append(9),
    "m.0": lambda o: setattr(o.m[0], "v", (o.m[0].v + 1) % 3), "m.0.ws": lambda o: o.m[0].ws.append(9), "kl.0": lambda o: o.kl[0].ws.append(9),
    "dd.z": lambda o: o.dd["z"].ws.append(9), "dd.z.v": lambda o: setattr(o.dd["z"], "v", (o.dd["z"].v + 1) % 3), "dl.q": lambda o: o.dl["q"].append(9),
    "e.with": lambda o: o.with_e(v=2, _inplace=True), "a.item": lambda o: o.with_a_item(5, _inplace=True), "b.item": lambda o: o.with_b_item("q", 1, _inplace=True),
}
ARG_POOL = {"dd": [D_((S.S("z"), LF(1, 1))), D_((S.S("z"), LF(0)), (S.S("y"), LF(2)))], "dl": [D_((S.S("q"), L(I(1)))), D_((S.S("q"), L()))],
            "a": [L(I(4), I(4))], "b": [D_((S.S("m"), I(2)))], "c": [SET(I(1))], "d": [L(I(6))], "e": [LF(1, 3)], "g": [L(), L(I(8))], "h": [L(I(0))],
            "m": [S.TUP(LF(1)), L(LF(2, 2)), S.TUP(LF(0), LF(1, 1))], "kl": [L(KLF("a")), S.KL(KLF("b", 1)), S.TUP(KLF("a", 3), KLF("c"))]}


def run_histories(job):
    sd, n_hist, hist_len = job
    rnd = random.Random(sd)
    w = World("defaults", SCN)
    out = []
    classes = ["Base", "SubSpec", "SubPlain", "SubPlain2", "SubOfDnc", "SubOfHand"]          # (DncBase itself shares by design and is never instantiated)
    for h in range(n_hist):
        reg = Registry()
        insts, args = {}, {}
        counter = [0]

        def roots():
            rs = []
            for cname in classes + ["DncBase", "HandBase", "Leaf", "KLeaf"]:
                for a in SCN["classes"][cname]["attrs"]:
                    v = w.classes[cname].__dict__.get(a["name"], None)
                    if a["name"] in w.classes[cname].__dict__ and not callable(v):
                        rs.append({"kind": "dflt", "name": f"dflt:{cname}.{a['name']}", "v": w.alpha(v), "tok": [t for _, t in w.tokens(v, reg)]})
            for k, v in args.items():
                rs.append({"kind": "arg", "name": k, "v": w.alpha(v), "tok": [t for _, t in w.tokens(v, reg)]})
            for k, v in insts.items():
                rs.append({"kind": "inst", "name": k, "v": w.alpha(v), "tok": [t for _, t in w.tokens(v, reg)]})
            return rs

        for step in range(hist_len):
            ops = ["construct"] * (3 if len(insts) < 2 else 1) + (["poke"] * 4 + ["reset_attr"] * 3 + ["delattr", "reset", "cow", "drop"] if insts else [])
            op = rnd.choice(ops)
            ev = {"op": op, "hid": f"{sd}-{h}", "seq": step, "attrs": [], "given": [], "target": "", "res": "ok", "detail": ""}
            pre = roots()
            try:
                if op == "construct":
                    cname = rnd.choice(classes)
                    names = [a for a in ARG_POOL if a != "h" or cname in ("SubSpec", "SubPlain2")]
                    given = rnd.sample(names, rnd.randint(0, 3))
                    kw = {}
                    for a in given:
                        counter[0] += 1
                        obj = w.gamma(rnd.choice(ARG_POOL[a]))
                        args[f"arg:{counter[0]}"] = obj
                        kw[a] = obj
                    counter[0] += 1
                    name = f"inst:{counter[0]}"
                    ev.update(target=name, given=given, detail=cname)
                    insts[name] = w.classes[cname](**kw)
                    if len(insts) > 3:
                        insts.pop(sorted(insts, key=lambda k: int(k.split(":")[1]))[0])
                    if len(args) > 4:
                        args.pop(sorted(args, key=lambda k: int(k.split(":")[1]))[0])
                else:
                    name = rnd.choice(sorted(insts))
                    o = insts[name]
                    ev["target"] = name
                    attrs = [a["name"] for a in SCN["classes"][w.by_type[type(o)]]["attrs"]]
                    if op == "poke":
                        p = rnd.choice([k for k in POKES if k.split(".")[0] in attrs])
                        ev["detail"] = p
                        POKES[p](o)
                    elif op == "reset_attr":
                        a = rnd.choice(attrs)
                        ev.update(attrs=[a], detail=a)
                        if rnd.random() < 0.5:
                            getattr(o, f"reset_{a}")(_inplace=True)
                        else:
                            counter[0] += 1
                            name2 = f"inst:{counter[0]}"
                            insts[name2] = getattr(o, f"reset_{a}")()
                            ev["target"] = name2
                    elif op == "delattr":
                        a = rnd.choice(attrs)
                        ev.update(attrs=[a], detail=a)
                        delattr(o, a)
                    elif op == "reset":
                        ev.update(attrs=attrs)
                        if rnd.random() < 0.5:
                            o.reset(_inplace=True)
                        else:
                            counter[0] += 1
                            name2 = f"inst:{counter[0]}"
                            insts[name2] = o.reset()
                            ev["target"] = name2
                    elif op == "cow":
                        counter[0] += 1
                        name2 = f"inst:{counter[0]}"
                        insts[name2] = rnd.choice([lambda: o.with_f(1), lambda: copy.deepcopy(o), lambda: o.with_e(v=1), lambda: o.with_a_item(3),
                                                   lambda: o.update(f=2), lambda: o.transform_a(lambda xs: xs + [0])])()
                        ev["target"] = name2
                    elif op == "drop":
                        insts.pop(name)
                    while len(insts) > 3:
                        insts.pop(sorted(insts, key=lambda k: int(k.split(":")[1]))[0])
            except Exception as e:  # noqa: BLE001
                ev["res"] = type(e).__name__
            ev["pre"], ev["post"] = pre, roots()
            out.append(ev)
    return out, defaults_table(w)
