"""Driver for C09: hierarchies of depth <= 3 (table -> Python source and TLA+ constant), construction with keyword sets."""
import textwrap

from . import common, scenarios as S
from spec_classes import MISSING

I = S.I


def b(has, v=None, init=True, as_attr=False):
    """as_attr: declared as `name = Attr(default=v)` WITHOUT annotation (a re-declaration of an inherited attribute: the class becomes its owner)"""
    return {"has": has, "v": v if v is not None else S.MISSING, "init": init, "as_attr": as_attr}


def klass(bases=(), spec=True, decl=(), body=None, key=None, overflow=None, hand=None, post=False, dnc=None):
    return {"bases": list(bases), "spec": spec, "decl": list(decl), "body": body or {}, "dnc": dnc,          # dnc: do_not_copy argument (True or a list); no effect on values
            "key": {"set": key is not None, "name": key or ""}, "overflow": {"set": overflow is not None, "name": overflow or ""},
            "hand": hand is not None, "params": [{"n": n, "hasd": d is not None, "d": I(d) if d is not None else S.MISSING} for n, d in (hand or [])],
            "post": post}


# every hierarchy: ordered dict class name -> definition ; targets = classes that get instantiated
HIER = {
    "simple": ({"P": klass(decl=["a", "b"], body={"a": b(True, I(1)), "b": b(False)})}, ["P"]),
    "key_required": ({"K": klass(decl=["k", "v"], body={"k": b(False), "v": b(True, I(0))}, key="k")}, ["K"]),
    "key_default": ({"K": klass(decl=["k", "v"], body={"k": b(True, I(7)), "v": b(True, I(0))}, key="k")}, ["K"]),
    "overflow": ({"O": klass(decl=["a", "extra"], body={"a": b(True, I(1)), "extra": b(False)}, overflow="extra")}, ["O"]),
    # the key given a default further down: by a decorated subclass (constructor regenerated) and by a plain subclass (constructor inherited)
    "key_redefault": ({"Q": klass(decl=["k", "v"], body={"k": b(False), "v": b(True, I(0))}, key="k"),
                       "SQ": klass(bases=["Q"], body={"k": b(True, I(8))}),
                       "PQ": klass(bases=["Q"], spec=False, body={"k": b(True, I(7))})}, ["SQ", "PQ"]),
    # a keyed parent with a hand-written constructor; decorated children re-default the key (and another attribute) or leave it alone
    "key_hand_parent": ({"P": klass(decl=["k", "v"], body={"k": b(False), "v": b(False)}, key="k", hand=[("k", 100), ("v", 1)]),
                         "C": klass(bases=["P"], body={"k": b(True, I(8)), "v": b(True, I(5))}),
                         "E": klass(bases=["P"], decl=["e"], body={"e": b(True, I(3)), "v": b(True, I(4))})}, ["P", "C", "E"]),
    # a plain class BETWEEN two decorated classes re-defaults an attribute the inner one does not mention (generated and hand-written base constructors)
    "spec_plain_spec": ({"Base": klass(decl=["a", "b"], body={"a": b(True, I(1)), "b": b(False)}),
                         "Tuned": klass(bases=["Base"], spec=False, body={"a": b(True, I(5))}),
                         "Leaf": klass(bases=["Tuned"], decl=["c"], body={"c": b(True, I(3))}),
                         "Leaf2": klass(bases=["Leaf"], spec=False, body={"c": b(True, I(4))})}, ["Leaf", "Leaf2"]),
    "hand_plain_spec": ({"Base": klass(decl=["x", "y"], body={"x": b(False), "y": b(False)}, hand=[("x", 1), ("y", 2)]),
                         "Tuned": klass(bases=["Base"], spec=False, body={"x": b(True, I(50))}),
                         "Leaf": klass(bases=["Tuned"], decl=["c"], body={"c": b(True, I(3))})}, ["Leaf"]),
    # an inherited init=False attribute re-declared through Attr(...) (constructor argument again) / merely re-defaulted (still not one)
    "init_false_redeclared": ({"P": klass(decl=["a", "x"], body={"a": b(True, I(1), init=False), "x": b(True, I(0))}),
                               "Q": klass(bases=["P"], decl=["a"], body={"a": b(True, I(5), as_attr=True)}),
                               "R": klass(bases=["P"], body={"a": b(True, I(6))})}, ["Q", "R"]),
    # the key of the class under construction is not the key of the parent being constructed: unkeyed first parent + keyed second parent,
    # two parents with different keys, a child declaring a new key
    "key_second_parent": ({"A": klass(decl=["a"], body={"a": b(True, I(1))}),
                           "B": klass(decl=["k", "bb"], body={"k": b(False), "bb": b(True, I(2))}, key="k"),
                           "C": klass(bases=["A", "B"], decl=["c"], body={"c": b(True, I(3))})}, ["C"]),
    "key_two_keys": ({"A": klass(decl=["ka", "a"], body={"ka": b(False), "a": b(True, I(1))}, key="ka"),
                      "B": klass(decl=["kb", "bb"], body={"kb": b(False), "bb": b(True, I(2))}, key="kb"),
                      "C": klass(bases=["A", "B"], decl=["c"], body={"c": b(True, I(3))})}, ["C"]),
    "key_child_new": ({"P": klass(decl=["k", "v"], body={"k": b(False), "v": b(True, I(0))}, key="k"),
                       "C": klass(bases=["P"], decl=["k2"], body={"k2": b(False)}, key="k2")}, ["C"]),
    "overflow_init_false": ({"O": klass(decl=["a", "hid", "extra"], body={"a": b(True, I(1)), "hid": b(True, I(2), init=False), "extra": b(False)}, overflow="extra")}, ["O"]),
    "init_false": ({"P": klass(decl=["a", "hid"], body={"a": b(True, I(1)), "hid": b(True, I(2), init=False)}),
                    "C": klass(bases=["P"], decl=["c"], body={"c": b(True, I(3))})}, ["P", "C"]),
    "spec_sub": ({"P": klass(decl=["a", "b"], body={"a": b(True, I(1)), "b": b(False)}),
                  "C": klass(bases=["P"], decl=["c"], body={"c": b(True, I(3)), "a": b(True, I(5))})}, ["P", "C"]),
    "plain_sub": ({"P": klass(decl=["a", "b"], body={"a": b(True, I(1)), "b": b(False)}),
                   "D": klass(bases=["P"], spec=False, body={"a": b(True, I(9))})}, ["D"]),
    "redeclare": ({"P": klass(decl=["a"], body={"a": b(True, I(1))}),
                   "C": klass(bases=["P"], decl=["a", "c"], body={"a": b(True, I(7)), "c": b(False)})}, ["C"]),
    "hand_parents": ({"A": klass(decl=["a", "ao", "ad"], body={"a": b(False), "ao": b(False), "ad": b(False)}, hand=[("a", 100), ("ao", 100), ("ad", 100)]),
                      "B": klass(decl=["bb"], body={"bb": b(False)}, hand=[("bb", 10)]),
                      "C": klass(bases=["A", "B"], decl=["ao", "c"], body={"ao": b(True, I(10)), "ad": b(True, I(10)), "c": b(False)}),
                      "D": klass(bases=["C"], spec=False, body={"ad": b(True, I(1000))})}, ["A", "C", "D"]),
    "two_parents": ({"A": klass(decl=["a"], body={"a": b(True, I(1))}), "B": klass(decl=["bb"], body={"bb": b(True, I(2))}),
                     "C": klass(bases=["A", "B"], decl=["c"], body={"c": b(False)})}, ["C"]),
    "post_init": ({"P": klass(decl=["a"], body={"a": b(True, I(1))}, post=True),
                   "C": klass(bases=["P"], decl=["c"], body={"c": b(True, I(2))})}, ["P", "C"]),
    "depth3": ({"P": klass(decl=["a"], body={"a": b(True, I(1))}),
                "C": klass(bases=["P"], decl=["c"], body={"c": b(True, I(2))}),
                "E": klass(bases=["C"], decl=["e"], body={"e": b(False), "a": b(True, I(6))})}, ["E"]),
    "hand_mid_plain": ({"Base": klass(decl=["x", "y"], body={"x": b(False), "y": b(False)}, hand=[("x", 1), ("y", 2)]),
                        "Mid": klass(bases=["Base"], decl=["m"], body={"m": b(True, I(3))}),
                        "Leaf": klass(bases=["Mid"], spec=False, body={"x": b(True, I(9))})}, ["Mid", "Leaf"]),
    "hand_mid_redefault_plain": ({"Base": klass(decl=["x"], body={"x": b(False)}, hand=[("x", 1)]),
                                  "Mid": klass(bases=["Base"], decl=["m"], body={"m": b(False), "x": b(True, I(5))}),
                                  "Leaf": klass(bases=["Mid"], spec=False, body={}),
                                  "Leaf2": klass(bases=["Mid"], spec=False, body={"x": b(True, I(7)), "m": b(True, I(8))})}, ["Mid", "Leaf", "Leaf2"]),
    "gen_mid_plain": ({"Base": klass(decl=["x"], body={"x": b(True, I(1))}),
                       "Mid": klass(bases=["Base"], decl=["m"], body={"m": b(True, I(3))}),
                       "Leaf": klass(bases=["Mid"], spec=False, body={"x": b(True, I(9)), "m": b(True, I(4))})}, ["Leaf"]),
    # a hand-written constructor further up assigns an attribute that a nearer class owns: the nearer owner decides (parents are constructed base-most first)
    "hand_base_redeclared": ({"Base": klass(decl=["x", "y"], body={"x": b(False), "y": b(False)}, hand=[("x", 1), ("y", 10)]),
                              "Mid": klass(bases=["Base"], decl=["x", "m"], body={"x": b(True, I(2)), "m": b(True, I(3))}),
                              "Leaf": klass(bases=["Mid"], decl=["z"], body={"z": b(True, I(4))})}, ["Mid", "Leaf"]),
    "two_parents_shared": ({"Left": klass(decl=["sh"], body={"sh": b(True, I(100))}),
                            "Right": klass(decl=["sh", "r"], body={"sh": b(False), "r": b(False)}, hand=[("sh", -5), ("r", 2)]),
                            "Both": klass(bases=["Left", "Right"], decl=["c"], body={"c": b(True, I(0))})}, ["Both"]),
    # __post_init__ defined by a plain subclass (overriding / adding), and reaching a class only through its second spec parent
    "post_plain_override": ({"P": klass(decl=["a"], body={"a": b(True, I(1))}, post=True),
                             "D": klass(bases=["P"], spec=False, body={}, post=True)}, ["P", "D"]),
    "post_plain_adds": ({"P": klass(decl=["a"], body={"a": b(True, I(1))}),
                         "D": klass(bases=["P"], spec=False, body={}, post=True)}, ["D"]),
    "post_second_parent": ({"Left": klass(decl=["a"], body={"a": b(True, I(1))}),
                            "Right": klass(decl=["r"], body={"r": b(True, I(2))}, post=True),
                            "Both": klass(bases=["Left", "Right"], decl=["c"], body={"c": b(True, I(3))})}, ["Both"]),
    # do_not_copy settings along the hierarchy change nothing about WHAT is assigned
    "dnc_parent_child": ({"P": klass(decl=["a", "b"], body={"a": b(True, I(1)), "b": b(False)}, dnc=True),
                          "C": klass(bases=["P"], decl=["c"], body={"c": b(True, I(3))}, dnc=True),
                          "D": klass(bases=["P"], decl=["c"], body={"c": b(True, I(3))}, dnc=["a"]),
                          "E": klass(bases=["P"], decl=["c"], body={"c": b(True, I(3))})}, ["P", "C", "D", "E"]),
    "spec_plain_spec": ({"P": klass(decl=["a"], body={"a": b(True, I(1))}),
                         "D": klass(bases=["P"], spec=False, body={}),
                         "E": klass(bases=["D"], decl=["e"], body={"e": b(True, I(2))})}, ["E"]),
}
HEADER = "from spec_classes import Attr, spec_class\n"


def source(classes):
    out = [HEADER]
    for name, c in classes.items():
        if c["spec"]:
            args = []
            if c["key"]["set"]:
                args.append(f"key={c['key']['name']!r}")
            if c["overflow"]["set"]:
                args.append(f"init_overflow_attr={c['overflow']['name']!r}")
            if c.get("dnc"):
                args.append(f"do_not_copy={c['dnc']!r}")
            out.append("@spec_class" + (f"({', '.join(args)})" if args else ""))
        out.append(f"class {name}" + (f"({', '.join(c['bases'])})" if c["bases"] else "") + ":")
        body = []
        for a in c["decl"]:
            bd = c["body"].get(a, b(False))
            if a == c["overflow"]["name"]:
                continue
            if bd.get("as_attr"):
                body.append(f"{a} = Attr(default={bd['v']['i']}" + ("" if bd["init"] else ", init=False") + ")")
            elif not bd["init"]:
                body.append(f"{a}: int = Attr(default={bd['v']['i']}, init=False)")
            elif bd["has"]:
                body.append(f"{a}: int = {bd['v']['i']}")
            else:
                body.append(f"{a}: int")
        for a, bd in c["body"].items():
            if a not in c["decl"] and bd["has"]:
                body.append(f"{a} = {bd['v']['i']}")
        if c["hand"]:
            sig = ", ".join(f"{p['n']}={p['d']['i']}" if p["hasd"] else p["n"] for p in c["params"])
            body.append(f"def __init__(self, {sig}):\n" + "\n".join(f"    self.{p['n']} = {p['n']} + 1" for p in c["params"]))
        if c["post"]:
            body.append(f"def __post_init__(self):\n    POSTS.append(dict({{a: getattr(self, a, None) for a in self.__spec_class__.attrs}}, __hook__={name!r}))")
        if not body:
            body.append("pass")
        out += [textwrap.indent(x, "    ") for x in body]
        out.append("")
    return "\n".join(out)


def table(name, ns):
    classes, targets = HIER[name]
    t = {}
    for cname, c in classes.items():
        d = {k: c[k] for k in ("spec", "decl", "body", "key", "overflow", "hand", "params", "post")}
        d["mro"] = [k.__name__ for k in ns[cname].__mro__ if k.__name__ in classes]
        if not d["body"]:
            d["body"] = {"_": b(False)}
        t[cname] = d
    return t


def build(name):
    classes, targets = HIER[name]
    ns = {"POSTS": [], "__name__": f"hier_{name}"}
    exec(source(classes), ns)
    return ns


def alpha(v):
    if v is MISSING:
        return S.MISSING
    if isinstance(v, bool) or not isinstance(v, (int, str, dict)):
        return {"t": "alien", "s": repr(v)[:40]}
    if isinstance(v, int):
        return I(v)
    if isinstance(v, str):
        return S.S(v)
    return {"t": "dict", "e": [{"k": alpha(k), "v": alpha(x)} for k, x in v.items()]}


def gamma(v):
    return v["i"] if v["t"] == "int" else v["s"]


def key_of(classes, ns, cname):
    mro = [k.__name__ for k in ns[cname].__mro__ if k.__name__ in classes and classes[k.__name__]["spec"]]
    while mro:
        c = classes[mro[0]]
        if c["key"]["set"]:
            return c["key"]["name"]
        mro = [k.__name__ for k in ns[mro[0]].__mro__ if k.__name__ in classes and classes[k.__name__]["spec"]][1:]
    return ""


def run_cases(job):
    name, cases = job
    ns = build(name)
    classes, _ = HIER[name]
    managed_cache = {}
    out = []
    for case in cases:
        cls = ns[case["c"]]
        kws = case["kws"]
        # the key of the class may be passed positionally (which attribute that is follows from the decorator arguments along the real MRO:
        # own key, else the key of the first spec class after it)
        for positional in ([False, True] if kws and key_of(classes, ns, case["c"]) == kws[0]["k"] else [False]):
            del ns["POSTS"][:]
            res, attrs = "ok", {}
            try:
                if positional:
                    obj = cls(gamma(kws[0]["v"]), **{e["k"]: gamma(e["v"]) for e in kws[1:]})
                else:
                    obj = cls(**{e["k"]: gamma(e["v"]) for e in kws})
                attrs = {a: alpha(getattr(obj, a, MISSING)) for a in obj.__spec_class__.attrs}
            except Exception as e:  # noqa: BLE001
                res = type(e).__name__
            posts = [dict(p) for p in ns["POSTS"]]
            owners = [p.pop("__hook__") for p in posts]
            out.append({"h": name, "c": case["c"], "kws": kws, "positional_key": positional, "res": res,
                        "attrs": attrs if attrs else {"_": S.MISSING}, "posts": len(posts), "post_owners": owners,
                        "post_saw_final": all({a: alpha(v if v is not None else MISSING) for a, v in p.items()} == attrs for p in posts) if res == "ok" else True})
    return out
