"""Driver for spec/KeyedList*.tla (C13): executes model actions on the real KeyedList and records events.

The driver decides nothing; it only translates (gamma), calls, and projects (alpha)."""
import random
from typing import Tuple

from . import common  # noqa: F401  (puts the repo under test on sys.path)

from spec_classes import spec_class
from spec_classes.types import KeyedList


@spec_class(key="k", bootstrap=True)
class KItem:
    k: str
    p: int = 0


def _fnkey(t):
    return t[0]


# flavour -> (key function or None, item type, key type)
FLAVOURS = {
    "self": (None, str, str),            # hashable items that are their own key
    "fn": (_fnkey, tuple, str),          # explicit key function
    "spec": (None, KItem, str),          # keyed spec-class items
    "intkey": (_fnkey, tuple, int),      # int keys: l[k] is index access by Python's rules
}


@spec_class(key="k", bootstrap=True)
class KOther:           # a keyed spec class that is not the declared item type but yields the same keys
    k: str
    p: int = 0


def expressible(flavour, item):
    if item["bad"] == "key" and flavour in ("self", "spec"):
        return False
    if item["bad"] == "itemk" and flavour == "self":
        return False
    if flavour == "self" and item["p"] != 0:
        return False
    return True


def gamma_item(flavour, item):
    bad = item["bad"]
    if bad == "item":
        return {"self": 5, "fn": "zz", "spec": 5, "intkey": "zz"}[flavour]
    if bad == "key":
        return {"fn": (7, 0), "intkey": ("s", 0)}[flavour]
    if bad == "itemk":          # wrong item type, good key
        return KOther(k=item["k"], p=item["p"]) if flavour == "spec" else [item["k"], item["p"]]
    if flavour == "self":
        return item["k"]
    if flavour == "spec":
        return KItem(k=item["k"], p=item["p"])
    return (item["k"], item["p"])


def alpha_item(flavour, obj):
    if flavour == "self" and isinstance(obj, str):
        return {"k": obj, "p": 0, "bad": "no"}
    if flavour == "spec" and isinstance(obj, KItem):
        return {"k": obj.k, "p": obj.p, "bad": "no"}
    if flavour in ("fn", "intkey") and isinstance(obj, tuple) and len(obj) == 2:
        want = int if flavour == "intkey" else str
        if isinstance(obj[0], want) and isinstance(obj[1], int):
            return {"k": obj[0], "p": obj[1], "bad": "no"}
    return {"k": "?" if flavour != "intkey" else -99, "p": -1, "bad": "alien:" + repr(obj)[:40]}


def alpha_key(flavour, k):
    """a key of the wrong kind (admitted by a defective container) is projected to the alien marker: TLC cannot compare ints with strings"""
    want = int if flavour == "intkey" else str
    return k if isinstance(k, want) and not isinstance(k, bool) else (-99 if flavour == "intkey" else "?")


def make(flavour, typed, items=()):
    keyfn, ity, kty = FLAVOURS[flavour]
    cls = KeyedList[ity, kty] if typed else KeyedList
    return cls([gamma_item(flavour, x) for x in items], key=keyfn) if keyfn else cls([gamma_item(flavour, x) for x in items])


def action_expressible(flavour, typed, a):
    xs = []
    if "x" in a:
        xs.append(a["x"])
    xs += a.get("xs", [])
    for x in xs:
        if x["bad"] != "no" and not typed:
            return False
        if not expressible(flavour, x):
            return False
    if flavour == "intkey" and a["op"] in ("setkey", "delkey"):
        return False
    return True


def apply(kl, flavour, a):
    with common.deadline(20):
        return _apply(kl, flavour, a)


def _apply(kl, flavour, a):
    """Execute action `a`; return (exception class name or 'ok', ret as list of abstract items)."""
    op = a["op"]
    g = lambda x: gamma_item(flavour, x)
    ret = []
    try:
        if op == "insert":
            kl.insert(a["i"], g(a["x"]))
        elif op == "append":
            kl.append(g(a["x"]))
        elif op == "setidx":
            kl[a["i"]] = g(a["x"])
        elif op == "setkey":
            kl[a["k"]] = g(a["x"])
        elif op == "delidx":
            del kl[a["i"]]
        elif op == "delkey":
            del kl[a["k"]]
        elif op == "extend":
            kl.extend([g(x) for x in a["xs"]])
        elif op == "iadd":
            kl2 = kl
            kl2 += [g(x) for x in a["xs"]]
            if kl2 is not kl:
                return "NotSameObject", []
        elif op == "pop":
            ret = [alpha_item(flavour, kl.pop(a["i"]))]
        elif op == "poplast":
            ret = [alpha_item(flavour, kl.pop())]
        elif op == "remove":
            kl.remove(g(a["x"]))
        elif op == "reverse":
            kl.reverse()
        elif op == "clear":
            kl.clear()
        elif op == "add":
            r = kl + [g(x) for x in a["xs"]]
            if not isinstance(r, KeyedList):
                return "NotKeyedList", []
            ret = [alpha_item(flavour, x) for x in r]
        elif op == "radd":
            r = [g(x) for x in a["xs"]] + kl
            if not isinstance(r, KeyedList):
                return "NotKeyedList", []
            ret = [alpha_item(flavour, x) for x in r]
        else:
            raise AssertionError(op)
    except (KeyboardInterrupt, SystemExit):
        raise
    except BaseException as e:  # noqa: BLE001 - the judge classifies (BaseTypeError is a BaseException)
        return type(e).__name__, []
    return "ok", ret


def outcome(fn):
    try:
        return "ok", fn()
    except Exception as e:  # noqa: BLE001
        return type(e).__name__, None


def project(kl, flavour):
    """Observable state through the public API: the list and the key index."""
    al = lambda x: alpha_item(flavour, x)
    try:
        lst = [al(x) for x in kl]
    except Exception as e:  # noqa: BLE001
        lst = [{"k": "?" if flavour != "intkey" else -99, "p": -1, "bad": "iter:" + type(e).__name__}]
    return {
        "lst": lst,
        "len": len(kl),
        "keys": [alpha_key(flavour, k) for k in kl.keys()],
        "items": [{"k": alpha_key(flavour, k), "v": al(v)} for k, v in kl.items()],
    }


def reads(kl, flavour, keys, universe, idxs):
    """Every read of the public API on the current container (judged against a linear scan)."""
    al = lambda x: alpha_item(flavour, x)
    out = {"getidx": [], "getkey": [], "get": [], "ifk": [], "inkey": [], "initem": [], "count": [], "index": [],
           "slices": [], "eq": []}
    for i in idxs:
        r, v = outcome(lambda: kl[i])
        out["getidx"].append({"i": i, "res": r, "v": [al(v)] if r == "ok" else []})
    for k in keys:
        if flavour != "intkey":
            r, v = outcome(lambda: kl[k])
            out["getkey"].append({"k": k, "res": r, "v": [al(v)] if r == "ok" else []})
        v = kl.get(k)
        out["get"].append({"k": k, "v": [] if v is None else [al(v)]})
        r, v = outcome(lambda: kl.index_for_key(k))
        out["ifk"].append({"k": k, "res": r, "v": v if r == "ok" else -1})
        if flavour not in ("self", "intkey"):
            # for self-keyed items a key IS an item; for int keys membership of a bare int is by key
            out["inkey"].append({"k": k, "v": k in kl})
    for x in universe:
        if not expressible(flavour, x):
            continue
        gx = gamma_item(flavour, x)
        out["initem"].append({"x": x, "v": gx in kl})
        out["count"].append({"x": x, "v": kl.count(gx)})
        r, v = outcome(lambda: kl.index(gx))
        out["index"].append({"x": x, "res": r, "v": v if r == "ok" else -1})
    n = len(kl)
    for lo, hi in ((0, n), (1, n), (0, -1), (-2, n + 1), (1, 2), (2, 1)):
        s = kl[lo:hi]
        out["slices"].append({"lo": lo, "hi": hi, "kl": isinstance(s, KeyedList), "v": [al(x) for x in s]})
    plain = list(kl)
    out["eq"] = [kl == plain, kl == plain + [object()], (kl != plain), kl == make_like(kl, plain)]
    return out


def make_like(kl, plain):
    return KeyedList(plain, key=kl._key) if kl._key else KeyedList(plain)


def step_event(kl, flavour, typed, a, meta):
    pre = project(kl, flavour)
    res, ret = apply(kl, flavour, a)
    post = project(kl, flavour)
    ev = {"kind": "op", "cfg": {"typed": typed, "intkeys": flavour == "intkey"}, "flavour": flavour,
          "a": a, "pre": pre, "post": post, "res": res, "ret": ret}
    ev.update(meta)
    return ev


def reads_event(kl, flavour, typed, keys, universe, idxs):
    return {"kind": "reads", "cfg": {"typed": typed, "intkeys": flavour == "intkey"}, "flavour": flavour,
            "post": project(kl, flavour), "reads": reads(kl, flavour, keys, universe, idxs)}


# ------------------------------------------------------------------ table replay: states x actions

def run_table(job):
    """job = (flavour, typed, states, acts, keys, universe, idxs).  Returns (op events, reads events)."""
    flavour, typed, states, acts, keys, universe, idxs = job
    ops, rds, seen = [], [], set()
    acts = [a for a in acts if action_expressible(flavour, typed, a)]
    for st in states:
        if not all(expressible(flavour, x) for x in st):
            continue
        for a in acts:
            try:
                kl = make(flavour, typed, st)          # a real history: constructor inserting item by item
            except BaseException as e:  # noqa: BLE001      (BaseTypeError is a BaseException)
                pre = {"lst": list(st), "len": len(st), "keys": [x["k"] for x in st], "items": [{"k": x["k"], "v": x} for x in st]}
                ops.append({"kind": "op", "cfg": {"typed": typed, "intkeys": flavour == "intkey"}, "flavour": flavour, "a": a, "pre": pre, "post": pre,
                            "res": "ConstructionRefused:" + type(e).__name__, "ret": [], "src": "table"})
                break
            ops.append(step_event(kl, flavour, typed, a, {"src": "table"}))
            re = reads_event(kl, flavour, typed, keys, universe, idxs)
            h = common.canon(re)
            if h not in seen:
                seen.add(h)
                rds.append(re)
    return ops, rds


# ------------------------------------------------------------------ random histories beyond the bound

def run_random(job):
    """job = (flavour, typed, seed, n_hist, hist_len, nkeys, npay).  Persistent container per history."""
    flavour, typed, sd, n_hist, hist_len, nkeys, npay = job
    rnd = random.Random(sd)
    if flavour == "intkey":
        keys = list(range(nkeys))
    else:
        keys = [chr(ord("a") + i) for i in range(nkeys)]
    pays = [0] if flavour == "self" else list(range(npay))
    universe = [{"k": k, "p": p, "bad": "no"} for k in keys for p in pays]
    bads = []
    if typed:
        bads = [x for x in ({"k": keys[0], "p": 0, "bad": "item"}, {"k": keys[0], "p": 0, "bad": "key"}, {"k": keys[0], "p": 0, "bad": "itemk"}, {"k": keys[-1], "p": 0, "bad": "itemk"})
                if expressible(flavour, x)]
    ops, rds, seen = [], [], set()
    for h in range(n_hist):
        kl = make(flavour, typed, [])
        for s in range(hist_len):
            n = len(kl)
            idxs = list(range(-n - 1, n + 2))
            item = lambda: rnd.choice(bads) if bads and rnd.random() < 0.05 else rnd.choice(universe)
            op = rnd.choice(["insert", "insert", "append", "append", "setidx", "setidx", "setkey", "delidx", "delkey", "extend",
                             "iadd", "pop", "poplast", "remove", "reverse", "add", "radd", "clear"] if n < 12 else
                            ["delidx", "delkey", "pop", "poplast", "remove", "reverse", "setidx", "setkey", "clear"])
            if op == "clear" and rnd.random() < 0.7:
                op = "reverse"
            a = {"op": op}
            if op in ("insert", "setidx"):
                a.update(i=rnd.choice(idxs), x=item())
            elif op == "append":
                a.update(x=item())
            elif op == "setkey":
                a.update(k=rnd.choice(keys), x=item())
            elif op in ("delidx", "pop"):
                a.update(i=rnd.choice(idxs))
            elif op == "delkey":
                a.update(k=rnd.choice(keys))
            elif op in ("extend", "iadd"):
                a.update(xs=[item() for _ in range(rnd.randint(0, 3))])
            elif op in ("add", "radd"):
                a.update(xs=[rnd.choice(universe) for _ in range(rnd.randint(0, 3))])
            elif op == "remove":
                a.update(x=rnd.choice(universe))
            if not action_expressible(flavour, typed, a):
                continue
            ops.append(step_event(kl, flavour, typed, a, {"src": "random", "hid": f"{flavour}-{typed}-{sd}-{h}", "seq": s}))
            if rnd.random() < 0.2:
                n = len(kl)
                re = reads_event(kl, flavour, typed, keys, rnd.sample(universe, min(6, len(universe))), list(range(-n - 1, n + 2)))
                hh = common.canon(re)
                if hh not in seen:
                    seen.add(hh)
                    rds.append(re)
    return ops, rds
