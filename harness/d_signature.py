"""Driver for C17: calls against every generated method with a spy in place of the implementation."""
import inspect
import itertools
from typing import Any, Dict, List, Set

from . import common
from spec_classes import Attr, spec_class
from spec_classes.types import KeyedList

SRC = '''
from typing import Any, Dict, List, Set
from spec_classes import Attr, spec_class
from spec_classes.types import KeyedList

@spec_class
class Child:
    v: int = 0
    ws: List[int] = []
    hid: int = Attr(default=1, init=False)

@spec_class
class Child2(Child):
    hid = 5          # merely re-defaulted: still not a constructor argument
    extra2: int = 0

@spec_class(key="k")
class KChild:
    k: str
    w: int = 0

@spec_class(init_overflow_attr="extra")
class Over:
    a: int = 0

@spec_class
class P:
    n: int = 0
    child: Child
    kids: List[Child]
    opts: Dict[str, Child]
    tags: Set[int]
    kk: KeyedList[KChild, str]
    over: Over
    child2: Child2
    overs: List[Over]
    nums: List[int]
    _private: int = 0
'''
# class table for SigOps (hand-written next to the source above: the model's view of the same classes)
def T(fam, item=""):
    return {"fam": fam, "item": item}


ST = {
    "Child": {"attrs": ["v", "ws", "hid"], "init": {"v": True, "ws": True, "hid": False}, "ty": {"v": T("scalar"), "ws": T("seq"), "hid": T("scalar")}, "overflow": ""},
    "Child2": {"attrs": ["v", "ws", "hid", "extra2"], "init": {"v": True, "ws": True, "hid": False, "extra2": True},
               "ty": {"v": T("scalar"), "ws": T("seq"), "hid": T("scalar"), "extra2": T("scalar")}, "overflow": ""},
    "KChild": {"attrs": ["k", "w"], "init": {"k": True, "w": True}, "ty": {"k": T("scalar"), "w": T("scalar")}, "overflow": ""},
    "Over": {"attrs": ["a", "extra"], "init": {"a": True, "extra": True}, "ty": {"a": T("scalar"), "extra": T("map")}, "overflow": "extra"},
    "P": {"attrs": ["n", "child", "kids", "opts", "tags", "kk", "over", "child2", "overs", "nums"],
          "init": {a: True for a in ["n", "child", "kids", "opts", "tags", "kk", "over", "child2", "overs", "nums"]},
          "ty": {"n": T("scalar"), "child": T("scalar", "Child"), "kids": T("seq", "Child"), "opts": T("map", "Child"), "tags": T("set"),
                 "kk": T("seq", "KChild"), "over": T("scalar", "Over"), "child2": T("scalar", "Child2"), "overs": T("seq", "Over"), "nums": T("seq")}, "overflow": ""},
}
ITEM = {"kids": "kid", "opts": "opt", "tags": "tag", "kk": "kk_item", "overs": "over_item", "nums": "num", "ws": "w", "extra": "extra_item"}
UNADVERTISED = ["zz", "hid", "_private", "extra", "nosuch_attr", "w"]


def methods():
    ns = {"__name__": "sig_scn"}
    exec(SRC, ns)
    out = []
    for cname in ("P", "Child", "Child2", "KChild", "Over"):
        cls = ns[cname]
        cls.__spec_class__
        out.append((cls, {"cls": cname, "fam": "init", "verb": "init", "attr": ""}, "__init__"))
        for verb in ("update", "transform", "reset"):
            out.append((cls, {"cls": cname, "fam": "top", "verb": verb, "attr": ""}, verb))
        for a in ST[cname]["attrs"]:
            if a == ST[cname]["overflow"]:
                continue
            for verb in ("with", "update", "transform", "reset"):
                out.append((cls, {"cls": cname, "fam": "scalar", "verb": verb, "attr": a}, f"{verb}_{a}"))
            if ST[cname]["ty"][a]["fam"] != "scalar":
                for verb in ("with", "update", "transform", "without"):
                    out.append((cls, {"cls": cname, "fam": "elem", "verb": verb, "attr": a}, f"{verb}_{cls.__spec_class__.attrs[a].item_name}"))
    return ns, out


KIND = {inspect.Parameter.POSITIONAL_OR_KEYWORD: "pos", inspect.Parameter.POSITIONAL_ONLY: "pos", inspect.Parameter.KEYWORD_ONLY: "kwonly",
        inspect.Parameter.VAR_KEYWORD: "varkw", inspect.Parameter.VAR_POSITIONAL: "varpos"}


def run_all(_):
    ns, ms = methods()
    events = []
    for cls, m, name in ms:
        fn = getattr(cls, name)
        raw = cls.__dict__.get(name, None)
        sig = inspect.signature(fn)
        params = [p for p in sig.parameters.values() if p.name != "self"]
        impl_sig = inspect.signature(fn.__wrapped__) if hasattr(fn, "__wrapped__") else None
        real_names = set(fn.__code__.co_varnames[:fn.__code__.co_argcount + fn.__code__.co_kwonlyargcount])
        sigrec = [{"n": p.name, "kind": KIND[p.kind], "hasd": p.default is not inspect.Parameter.empty, "virtual": p.name not in real_names} for p in params]
        events.append({"kind": "sig", "m": m, "method": name, "sig": sigrec})
        pos = [p for p in sigrec if p["kind"] == "pos"]
        required_pos = [p for p in pos if not p["hasd"]]
        base_npos = len(required_pos)
        named = [p["n"] for p in sigrec if p["kind"] in ("pos", "kwonly")]
        calls = [{"npos": base_npos, "kws": []}, {"npos": len(pos) + 1, "kws": []}, {"npos": 0, "kws": []}]
        for q in named:
            calls.append({"npos": base_npos, "kws": [q]})
            calls.append({"npos": 0, "kws": [q]})
        for q1, q2 in itertools.combinations(named, 2):
            calls.append({"npos": base_npos, "kws": [q1, q2]})
        for u in UNADVERTISED:
            if u not in named:
                calls.append({"npos": base_npos, "kws": [u]})
                if named:
                    calls.append({"npos": base_npos, "kws": [named[-1], u]})
        # option parameters given falsy values (False / None / 0): the wrapper must treat them like any other value, alone and next to an unadvertised name
        flags = [q for q in named if q.startswith("_")]
        for q in flags:
            for lit in ("False", "None", "0"):
                calls.append({"npos": base_npos, "kws": [q], "falsy": {q: lit}})
                for u in UNADVERTISED[:3]:
                    if u not in named:
                        calls.append({"npos": base_npos, "kws": [q, u], "falsy": {q: lit}})
        g = fn.__globals__
        orig = g.get("implementation")
        # every call is made twice: acceptance must not depend on what was tried before (a wrapper may keep state)
        for call in [c for c in calls for _ in (0, 1)]:
            seen = []

            def spy(*a, **k):
                seen.append((a, k))
                return None

            g["implementation"] = spy
            vals = {k: object() for k in call["kws"]}
            for k, lit in call.get("falsy", {}).items():
                vals[k] = {"False": False, "None": None, "0": 0}[lit]
            posvals = [object() for _ in range(call["npos"])]
            try:
                inst = object.__new__(cls)
                fn(inst, *posvals, **vals)
                res = "accept"
            except TypeError:
                res = "TypeError"
            except Exception as e:  # noqa: BLE001
                res = type(e).__name__
            finally:
                g["implementation"] = orig
            spy_ok = True
            if res == "accept":
                if len(seen) != 1:
                    spy_ok = False
                else:
                    a, k = seen[0]
                    got = dict(k)
                    # positional values arrive under the names of the positional parameters
                    for p, v in zip(pos, posvals):
                        if got.get(p["n"], None) is not v:
                            spy_ok = False
                    for kname, v in vals.items():
                        if got.get(kname, None) is not v:
                            spy_ok = False
                    for p in sigrec:
                        if p["virtual"] or p["kind"] not in ("pos", "kwonly"):
                            continue
                        if p["n"] not in vals and p not in pos[:call["npos"]]:
                            if got.get(p["n"], "<absent>") is not sig.parameters[p["n"]].default:
                                spy_ok = False
                    extra = set(got) - {p["n"] for p in sigrec} - set(vals)
                    if extra - {"self"}:
                        spy_ok = False
            events.append({"kind": "call", "m": m, "method": name, "sig": sigrec, "call": call, "res": res, "spy_called": bool(seen), "spy_ok": spy_ok})
    return events


# ------------------------------------------------------------------ delivery: the REAL implementation behind every wrapper (no spy)
VALS = {"v": 3, "ws": [4], "extra2": 6, "k": "kx", "w": 7, "a": 8, "n": 9, "retries": 11, "timeout": 12}


def _where(nested, k, v):
    """All the places where the value given for keyword k is found in the object the call built / updated."""
    d = getattr(nested, "__dict__", {})
    out = []
    if k in d and d[k] == v and type(d[k]) is type(v):
        out.append("attr")
    for name, val in d.items():
        if isinstance(val, dict) and k in val and val[k] == v:
            out.append("in:" + name)
    return out


def _nested_of(res, m, ns):
    if m["fam"] in ("init", "top"):
        return res
    val = getattr(res, m["attr"])
    if m["fam"] == "scalar":
        return val
    if isinstance(val, dict):
        return val["kx"]
    if isinstance(val, KeyedList):
        return val["kx"]
    return list(val)[-1]


def run_deliver(_):
    """Every advertised nested keyword (singly, in pairs) and, where **overflow is advertised, names outside the signature, given to the real
    method: the value must be found where the class table says (the nested attribute, or the nested overflow mapping).  The whole list
    is run twice over: delivery must not depend on what was called before."""
    ns, ms = methods()
    events = []
    for rnd in (0, 1):
        for cls, m, name in ms:
            if m["verb"] not in ("init", "with", "update") or (m["fam"] == "top" and m["verb"] != "update"):
                continue
            fn = getattr(cls, name)
            sig = inspect.signature(fn)
            params = [p for p in sig.parameters.values() if p.name != "self"]
            real_names = set(fn.__code__.co_varnames[:fn.__code__.co_argcount + fn.__code__.co_kwonlyargcount])
            virt = [p.name for p in params if p.kind is inspect.Parameter.KEYWORD_ONLY and p.name not in real_names and not p.name.startswith("_")]
            if m["fam"] in ("init", "top"):
                virt = [p.name for p in params if p.kind in (inspect.Parameter.KEYWORD_ONLY, inspect.Parameter.POSITIONAL_OR_KEYWORD) and not p.name.startswith("_")]
            virt = [k for k in virt if k in VALS]
            varkw = any(p.kind is inspect.Parameter.VAR_KEYWORD for p in params)
            sets = [[k] for k in virt] + [list(c) for c in itertools.combinations(virt, 2)]
            if varkw:
                sets += [["retries"], ["retries", "timeout"]] + [[k, "timeout"] for k in virt]
            for kws in sets:
                send = {k: VALS[k] for k in kws}
                if "k" in virt:
                    send.setdefault("k", "kx")
                args = ()
                if m["fam"] == "elem" and ST[m["cls"]]["ty"][m["attr"]]["fam"] == "map":
                    args = ("kx",)
                forms = [("kw", None)]
                if m["fam"] in ("scalar", "elem") and len(send) >= 2:
                    # the documented dict form of the value (constructor arguments) for all but one name, that name as a keyword next to it
                    forms.append(("dict", "k" if "k" in send else sorted(send)[-1]))
                for form, last in forms:
                    res, out = "ok", None
                    try:
                        if m["fam"] == "init":
                            out = cls(**send)
                        else:
                            recv = cls(**({"k": "r"} if m["cls"] == "KChild" else {}))
                            cargs = args
                            if m["fam"] == "elem" and m["verb"] == "update":
                                # an element to update: built by the matching with_<item> helper, then addressed by index / key
                                item = cls.__spec_class__.attrs[m["attr"]].item_name
                                recv = getattr(recv, "with_" + item)(*args, **({"k": "kx"} if "k" in virt else {}))
                                cargs = ("kx",) if args or isinstance(getattr(recv, m["attr"]), KeyedList) else (0,)
                            if form == "dict":
                                out = getattr(recv, name)(*cargs, {k: v for k, v in send.items() if k != last}, **{last: send[last]})
                            else:
                                out = getattr(recv, name)(*cargs, **send)
                        nested = _nested_of(out, m, ns)
                        got = [{"n": k, "where": _where(nested, k, v)} for k, v in sorted(send.items())]
                    except Exception as e:  # noqa: BLE001
                        res, got = type(e).__name__, [{"n": k, "where": []} for k in sorted(send)]
                    events.append({"kind": "deliver", "m": m, "method": name, "round": rnd, "form": form, "res": res, "kws": got,
                                   "sig": [{"n": p.name, "kind": KIND[p.kind], "hasd": p.default is not inspect.Parameter.empty, "virtual": p.name not in real_names} for p in params]})
    return events
