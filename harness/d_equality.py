"""Driver for C10: equality, copying and repr of spec-class instances holding every kind of attribute value."""
import copy
import itertools
import random
import re
import sys
from typing import Any, Dict, List

from . import common, scenarios as S
from spec_classes import MISSING, Attr, spec_class


def g1(x=None):
    return x


@spec_class(bootstrap=True)
class E:
    f: Any
    a: int
    b: int = Attr(default=0, compare=False)
    c: int = Attr(default=0, repr=False)
    g: Any = None

    def meth1(self):
        return 1

    def meth2(self):
        return 2


@spec_class(bootstrap=True)
class Sx(E):
    d: int = 0


class Tx(E):
    pass


@spec_class(do_not_copy=["b", "c", "g"], bootstrap=True)
class Dx(E):          # only the copy behaviour of inherited attributes differs: compare / repr flags are inherited unchanged
    pass


@spec_class(key="k", bootstrap=True)
class KI:
    k: str
    v: int = 0


CLASSES = {"E": E, "Sx": Sx, "Tx": Tx, "Dx": Dx}
ET = {
    "E": {"attrs": ["f", "a", "b", "c", "g"], "compare": {"f": True, "a": True, "b": False, "c": True, "g": True},
          "repr": {"f": True, "a": True, "b": True, "c": False, "g": True}, "parents": []},
    "Sx": {"attrs": ["f", "a", "b", "c", "g", "d"], "compare": {"f": True, "a": True, "b": False, "c": True, "g": True, "d": True},
           "repr": {"f": True, "a": True, "b": True, "c": False, "g": True, "d": True}, "parents": ["E"]},
    "Tx": {"attrs": ["f", "a", "b", "c", "g"], "compare": {"f": True, "a": True, "b": False, "c": True, "g": True},
           "repr": {"f": True, "a": True, "b": True, "c": False, "g": True}, "parents": ["E"]},
    "Dx": {"attrs": ["f", "a", "b", "c", "g"], "compare": {"f": True, "a": True, "b": False, "c": True, "g": True},
           "repr": {"f": True, "a": True, "b": True, "c": False, "g": True}, "parents": ["E"]},
}
BM1, BM2 = {"t": "bm", "f": "meth1"}, {"t": "bm", "f": "meth2"}
FVALS = [S.MISSING, S.I(1), BM1, BM2, {"t": "fn", "n": "g1"}, {"t": "cls", "n": "int"}, {"t": "mod", "n": "sys"}]
AVALS = [S.MISSING, S.I(0), S.I(1)]
GVALS = [S.NONE, BM1]


def KIv(k, v=0):
    return {"t": "obj", "c": "KI", "a": {"k": S.S(k), "v": S.I(v)}}


# collection-valued attributes: the same members in another order (equal for dict / set / KeyedSet, different for list / KeyedList)
GX = [S.L(S.I(1), S.I(2)), S.L(S.I(2), S.I(1)), S.KL(KIv("a"), KIv("b")), S.KL(KIv("b"), KIv("a")), S.KL(KIv("a"), KIv("b", 1)),
      S.KS(KIv("a"), KIv("b")), S.KS(KIv("b"), KIv("a")), S.D((S.S("a"), S.I(1)), (S.S("b"), S.I(2))), S.D((S.S("b"), S.I(2)), (S.S("a"), S.I(1))),
      S.SET(S.I(1), S.I(2)), S.SET(S.I(2), S.I(1)), KIv("a"), KIv("a", 1)]


def extra_pool():
    out = []
    for cname in CLASSES:
        for g in GX:
            attrs = {"f": S.MISSING, "a": S.I(0), "b": S.I(0), "c": S.I(0), "g": g}
            if cname == "Sx":
                attrs["d"] = S.I(0)
            out.append({"c": cname, "a": attrs})
    return out


def build_value(v):
    from spec_classes.types import KeyedList, KeyedSet
    t = v["t"]
    if t == "int":
        return v["i"]
    if t == "str":
        return v["s"]
    if t == "list":
        return [build_value(x) for x in v["e"]]
    if t == "set":
        return {build_value(x) for x in v["e"]}
    if t == "dict":
        return {build_value(e["k"]): build_value(e["v"]) for e in v["e"]}
    if t == "klist":
        return KeyedList([build_value(x) for x in v["e"]])
    if t == "kset":
        return KeyedSet([build_value(x) for x in v["e"]])
    if t == "obj":
        return KI(**{k: build_value(x) for k, x in v["a"].items()})
    raise ValueError(v)


def pool():
    out = []
    for cname in CLASSES:
        for f, a, b_, g in itertools.product(FVALS, AVALS, [S.I(0), S.I(1)], GVALS):
            attrs = {"f": f, "a": a, "b": b_, "c": S.I(0), "g": g}
            if cname == "Sx":
                attrs["d"] = S.I(0)
            out.append({"c": cname, "a": attrs})
    return out


def gamma(x):
    cls = CLASSES[x["c"]]
    kw = {k: v["i"] for k, v in x["a"].items() if v["t"] == "int"}
    obj = cls(**kw)
    for k, v in x["a"].items():
        if v["t"] == "bm":
            setattr(obj, k, getattr(obj, v["f"]))
        elif v["t"] == "fn":
            setattr(obj, k, g1)
        elif v["t"] == "cls":
            setattr(obj, k, int)
        elif v["t"] == "mod":
            setattr(obj, k, sys)
        elif v["t"] in ("list", "set", "dict", "klist", "kset", "obj"):
            setattr(obj, k, build_value(v))
    return obj


def attrs_of(obj):
    return {a: getattr(obj, a, MISSING) for a in obj.__spec_class__.attrs}


def repr_names(text):
    """Top-level `name=` tokens of ClassName(...), by bracket matching."""
    m = re.match(r"^\w+\((.*)\)$", text, re.S)
    if not m:
        return None
    body, depth, names, cur, instr = m.group(1), 0, [], "", None
    i = 0
    tokens = []
    start = 0
    while i < len(body):
        ch = body[i]
        if instr:
            if ch == "\\":
                i += 1
            elif ch == instr:
                instr = None
        elif ch in "'\"":
            instr = ch
        elif ch in "([{<":
            depth += 1
        elif ch in ")]}>":
            depth -= 1
        elif ch == "," and depth == 0:
            tokens.append(body[start:i])
            start = i + 1
        i += 1
    tokens.append(body[start:])
    for t in tokens:
        t = t.strip()
        mm = re.match(r"^(\w+)=", t)
        if mm:
            names.append(mm.group(1))
    return names


def do_repr(obj):
    try:
        text = repr(obj)
        names = repr_names(text)
        return "ok" if names is not None else "unparseable", names or []
    except Exception as e:  # noqa: BLE001
        return type(e).__name__, []


def run_pairs(job):
    xs, ys = job
    out = []
    for x in xs:
        ox = gamma(x)
        rr, names = do_repr(ox)
        try:
            cp = copy.deepcopy(ox)
            copy_eq = bool(cp == ox) and bool(ox == cp)
        except Exception:  # noqa: BLE001
            copy_eq = False
        try:
            rebuilt = type(ox)(**{k: v for k, v in attrs_of(ox).items() if v is not MISSING})
            rebuilt_eq = bool(rebuilt == ox)
        except Exception:  # noqa: BLE001
            rebuilt_eq = False
        out.append({"kind": "self", "x": x, "refl": bool(ox == ox), "copy_eq": copy_eq, "rebuilt_eq": rebuilt_eq, "repr_res": rr, "repr_names": names})
        for y in ys:
            oy = gamma(y)
            out.append({"kind": "pair", "x": x, "y": y, "eq": bool(ox == oy), "ne": bool(ox != oy), "eq_rev": bool(oy == ox)})
    return out


def run_triples(job):
    pool_, n, sd = job
    rnd = random.Random(sd)
    out = []
    objs = [gamma(x) for x in pool_]
    for _ in range(n):
        i, j, k = (rnd.randrange(len(objs)) for _ in range(3))
        # bias towards equal pairs: otherwise transitivity is vacuous
        if rnd.random() < 0.7:
            j = rnd.choice([m for m in range(len(objs)) if pool_[m]["c"] == pool_[i]["c"] and pool_[m]["a"]["a"] == pool_[i]["a"]["a"]])
        if rnd.random() < 0.7:
            k = rnd.choice([m for m in range(len(objs)) if pool_[m]["c"] == pool_[j]["c"] and pool_[m]["a"]["a"] == pool_[j]["a"]["a"]])
        out.append({"kind": "triple", "x": pool_[i], "y": pool_[j], "z": pool_[k], "xy": bool(objs[i] == objs[j]), "yz": bool(objs[j] == objs[k]), "xz": bool(objs[i] == objs[k])})
    return out


def run_reprs(_):
    """repr with missing values, self-reference and recursion through containers."""
    out = []

    @spec_class(bootstrap=True)
    class R:
        me: Any
        kids: List[Any] = []
        d: Dict[str, Any] = {}
        hidden: int = Attr(default=1, repr=False)
        n: int = 0

    ET_R = {"attrs": ["me", "kids", "d", "hidden", "n"]}
    cases = []
    r = R()
    cases.append(("all missing/defaults", r))
    r2 = R()
    r2.me = r2
    cases.append(("self reference", r2))
    r3 = R()
    r3.kids = [r3, [r3]]
    cases.append(("self in list", r3))
    r4 = R()
    r4.d = {"k": r4, "l": [1, {"m": r4}]}
    cases.append(("self in dict", r4))
    r5 = R(me=R(me=R()), kids=[R(), R(n=5)], n=3)
    cases.append(("nested", r5))
    r6 = R(me="x" * 200, kids=list(range(50)))
    cases.append(("long", r6))
    r7 = R()
    r7.me = r7.__repr__
    cases.append(("bound method of self", r7))
    a, b2 = R(), R()
    a.me, b2.me = b2, a
    cases.append(("mutual reference", a))
    # self-reference through every container kind of the grammar (each container's own repr must bound the recursion)
    from spec_classes.types import KeyedList as _KL, KeyedSet as _KS
    for label, mk in (("KeyedSet", lambda: _KS(key=id)), ("KeyedList", lambda: _KL(key=id))):
        o = R()
        box = mk()
        (box.add if label == "KeyedSet" else box.append)(o)
        o.me = box
        cases.append((f"self in {label}", o))
        o = R()
        box = mk()
        o.kids = [box]
        (box.add if label == "KeyedSet" else box.append)(o)
        cases.append((f"self in {label} in list", o))
    o = R()
    o.me = (o, [o])
    cases.append(("self in tuple", o))
    # children rendered inside a parent (compact and indented forms): every slot x child kind x padding that forces indentation
    @spec_class(key="k", bootstrap=True)
    class K:
        k: str
        v: int = 0

    @spec_class(key="k", frozen=True)
    class FK:
        k: str = "fk"
        w: List[int] = []

    def kid(kind):
        if kind == "keyed":
            return K("a")
        if kind == "keyed_key_deleted":
            x = K("a", v=2)
            del x.k
            return x
        if kind == "frozen_keyed":
            return FK()
        if kind == "plain_missing":
            return R()
        x = K("b")
        del x.k
        return R(me=x)          # a keyed child with a missing key two levels down

    for kind in ("keyed", "keyed_key_deleted", "frozen_keyed", "plain_missing", "nested_keyed_missing"):
        for slot in ("attr", "list", "dict", "list_in_dict"):
            for pad in (0, 150):
                o = R(n=1)
                if slot == "attr":
                    o.me = kid(kind)
                elif slot == "list":
                    o.kids = [kid(kind), kid(kind)]
                elif slot == "dict":
                    o.d = {"a": kid(kind)}
                else:
                    o.d = {"a": [kid(kind)], "b": (kid(kind),)}
                if pad:
                    o.kids = list(o.kids) + ["x" * pad]
                cases.append((f"child {kind} in {slot} pad={pad}", o))
    for label, obj in cases:
        rr, names = do_repr(obj)
        out.append({"kind": "repr", "label": label, "c": "R", "repr_res": rr, "repr_names": names})
        for flag in (True, False):          # the documented indent argument
            try:
                text = obj.__repr__(indent=flag)
                rr2, names2 = "ok", repr_names(text)
            except RecursionError:
                rr2, names2 = "RecursionError", []
            except Exception as e:  # noqa: BLE001
                rr2, names2 = type(e).__name__, []
            out.append({"kind": "repr", "label": f"{label} indent={flag}", "c": "R", "repr_res": rr2, "repr_names": names2})
    return out, {"R": {"attrs": ["me", "kids", "d", "hidden", "n"], "compare": {k: True for k in ET_R["attrs"]},
                       "repr": {"me": True, "kids": True, "d": True, "hidden": False, "n": True}, "parents": []}}
