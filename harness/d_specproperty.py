"""Driver for SpecProperty / ClassProperty (C12): replays access paths through the real descriptors."""
import itertools
import random

from . import common  # noqa: F401
from spec_classes import classproperty, spec_class, spec_property

NONE = {"t": "none"}


def alpha(v):
    if v is None:
        return NONE
    if isinstance(v, bool):
        return {"t": "bool", "b": v}
    if isinstance(v, int):
        return {"t": "int", "i": v}
    if isinstance(v, str):
        return {"t": "str", "s": v}
    if ITEMS[0] and isinstance(v, list) and len(v) == 1 and type(v[0]) is int:
        return {"t": "int", "i": v[0]}        # host "items": the abstract value n is the list [n]
    if ITEMS[0] and isinstance(v, list) and not v:
        return {"t": "elist"}
    return {"t": "alien", "s": repr(v)[:40]}


ITEMS = [False]


PYNONE = {"t": "pynone"}
_ABSENT = object()


def slot(d, k):
    """alpha of a dict slot that distinguishes 'holds None' from 'not there'"""
    v = d.get(k, _ABSENT)
    return NONE if v is _ABSENT else PYNONE if v is None else alpha(v)


def gamma(v):
    if v["t"] == "pynone":
        return None
    if ITEMS[0] and v["t"] == "int":
        return [v["i"]]
    return v["i"] if v["t"] == "int" else v["s"]


def make_sp(cfg):
    def getter(self):
        u = self.u
        return "bad" if u == 2 else [10 + u] if cfg["host"] == "items" else 10 + u

    prop = spec_property(getter, overridable=cfg["ov"], cache=cfg["cache"])
    if cfg["fset"]:
        prop = prop.setter(lambda self, v: self.__dict__.__setitem__("_b", v))
    if cfg["fdel"]:
        prop = prop.deleter(lambda self: self.__dict__.pop("_b", None))
    host = cfg["host"]
    if host == "plain":
        def __init__(self):
            self.u = 0
        return type("Plain", (), {"__init__": __init__, "p": prop})
    ns = {"__annotations__": {"u": int}, "u": 0, "p": prop}
    if host == "managed":
        ns["__annotations__"] = {"u": int, "p": int}
        ns["_prepare_p"] = lambda self, v: v + 100 if isinstance(v, int) and not isinstance(v, bool) else v
    if host == "items":
        # List[int] with an element preparer only: the getter result / an assigned list goes through the element preparer and the type check
        from typing import List
        ns["__annotations__"] = {"u": int, "p": List[int]}
        ns["_prepare_p_item"] = lambda self, v: v + 100 if isinstance(v, int) and not isinstance(v, bool) else v
    if cfg.get("shared"):
        # the SAME property object reaches the host through a plain mixin that a sibling spec class (managing the attribute
        # differently: str, other preparer) and a plain class also inherit, and they used it first: none of the host's business
        del ns["p"]
        mixin = type("Mixin", (), {"p": prop})
        sib = spec_class(type("Sibling", (mixin,), {"__annotations__": {"u": int, "p": str}, "u": 2,
                                                    "_prepare_p": lambda self, v: str(v) + "!"}))
        plain = type("PlainSibling", (mixin,), {"u": 1})
        for other in (sib, plain):
            try:
                other().p
            except Exception:  # noqa: BLE001
                pass
        return spec_class(type("Host", (mixin,), ns))
    if cfg.get("frozen"):
        return spec_class(frozen=True)(type("Host", (), ns))
    return spec_class(type("Host", (), ns))


def sp_state(obj):
    d = obj.__dict__
    return {"entry": slot(d, "p"), "under": d.get("u", -1), "backing": slot(d, "_b")}


def sp_path(cls, cfg, path):
    ITEMS[0] = cfg["host"] == "items"
    obj = cls(p=gamma({"t": "int", "i": 5})) if cfg.get("initov") else cls()
    steps = []
    for a in path:
        res, val = "ok", None
        try:
            if a["op"] == "read":
                val = obj.p
            elif a["op"] == "assign":
                obj.p = gamma(a["v"])
            elif a["op"] == "delete":
                del obj.p
            else:
                obj.u = a["u"]
        except Exception as e:  # noqa: BLE001
            res = type(e).__name__
        steps.append({"a": a, "res": res, "val": PYNONE if (val is None and res == "ok" and a["op"] == "read") else alpha(val), "st": sp_state(obj)})
    return {"kind": "sp", "cfg": cfg, "steps": steps}


def make_cp(cfg):
    def getter(cls):
        return None if cls.u == 2 else cls.tag * 10 + cls.u

    prop = classproperty(getter, overridable=cfg["ov"], cache=cfg["cache"], cache_per_subclass=cfg["per"])
    if cfg["fset"]:
        def fset(cls, v):
            Base._b = v
        prop = prop.setter(fset)
    if cfg["fdel"]:
        def fdel(cls):
            Base._b = _ABSENT
        prop = prop.deleter(fdel)
    Base = type("Base", (), {"tag": 1, "u": 0, "_b": _ABSENT, "p": prop})
    Mid = type("Mid", (Base,), {"tag": 2})
    Leaf = type("Leaf", (Mid,), {"tag": 3})
    return {"Base": Base, "Mid": Mid, "Leaf": Leaf}, prop


def cp_state(classes, prop):
    cache = prop._cache
    c = {"shared": slot(cache, None)}
    for n, k in classes.items():
        c[n] = slot(cache, k)
    extra = [k for k in cache if k is not None and k not in classes.values()]
    if extra:
        c["shared"] = {"t": "alien", "s": "extra cache keys"}
    return {"c": c, "under": classes["Base"].u, "backing": NONE if classes["Base"]._b is _ABSENT else PYNONE if classes["Base"]._b is None else alpha(classes["Base"]._b)}


def cp_path(cfg, path):
    classes, prop = make_cp(cfg)
    steps = []
    for a in path:
        res, val = "ok", None
        try:
            if a["op"] == "read":
                val = classes[a["c"]].p if a["via"] == "class" else classes[a["c"]]().p
            elif a["op"] == "assign":
                classes[a["c"]]().p = gamma(a["v"])
            elif a["op"] == "delete":
                del classes[a["c"]]().p
            else:
                classes["Base"].u = a["u"]
        except Exception as e:  # noqa: BLE001
            res = type(e).__name__
        steps.append({"a": a, "res": res, "val": PYNONE if (val is None and res == "ok" and a["op"] == "read") else alpha(val), "st": cp_state(classes, prop)})
    return {"kind": "cp", "cfg": cfg, "steps": steps}


def _paths(acts, L, stride, sd):
    """all paths of length L; with stride > 1: all paths of length L - 1 and every stride-th path of length L"""
    if stride > 1:
        yield from itertools.product(acts, repeat=L - 1)
    for idx, path in enumerate(itertools.product(acts, repeat=L)):
        if stride <= 1 or (idx + sd) % stride == 0:
            yield path


def run_sp(job):
    cfgs, acts, L, n_random, rlen, sd = job[:6]
    stride = job[6] if len(job) > 6 else 1
    rnd = random.Random(sd)
    out = []
    for cfg in cfgs:
        for shared in ((False, True) if cfg["host"] != "plain" else (False,)):
            cls = make_sp(dict(cfg, shared=shared))
            for path in _paths(acts, L, stride, sd):
                out.append(sp_path(cls, cfg, list(path)))
                out[-1]["shared"] = shared
            for _ in range(n_random):
                out.append(sp_path(cls, cfg, [rnd.choice(acts) for _ in range(rlen)]))
                out[-1]["shared"] = shared
    return out


def run_sp_frozen(job):
    """Frozen hosts: cfg carries frozen=True (and initov); every path of the alphabet."""
    cfgs, acts, L, n_random, rlen, sd = job
    rnd = random.Random(sd)
    out = []
    for cfg in cfgs:
        cls = make_sp(cfg)
        for path in itertools.product(acts, repeat=L):
            out.append(sp_path(cls, cfg, list(path)))
        for _ in range(n_random):
            out.append(sp_path(cls, cfg, [rnd.choice(acts) for _ in range(rlen)]))
    return out


def run_cp(job):
    cfgs, acts, L, n_random, rlen, sd = job[:6]
    stride = job[6] if len(job) > 6 else 1
    rnd = random.Random(sd)
    out = []
    for cfg in cfgs:
        for path in _paths(acts, L, stride, sd):
            out.append(cp_path(cfg, list(path)))
        for _ in range(n_random):
            out.append(cp_path(cfg, [rnd.choice(acts) for _ in range(rlen)]))
    return out
