"""Driver for C16: class-dictionary snapshots of real classes through decoration, bootstrap and first use."""
import dataclasses
import textwrap

from . import common
from spec_classes import Attr, spec_class
from spec_classes.utils.naming import get_singular_form

FAM_TY = {"none": "int", "seq": "List[int]", "map": "Dict[str, int]", "set": "Set[str]"}
HEADER = "from typing import Any, Dict, List, Set\nfrom spec_classes import Attr, spec_class\n"


def opts(init=True, repr=True, eq=True, attrs=(), typed=(), skip=(), useskip=False, key="", overflow=""):
    return {"init": init, "repr": repr, "eq": eq, "attrs": list(attrs), "typed": [{"n": n, "fam": f} for n, f in typed], "skip": list(skip), "useskip": useskip,
            "key": key, "overflow": overflow}          # overflow: init_overflow_attr; key: the decorator's key= (naming a key does not make the attribute a managed one)


def base(annots, body=(), o=None, inh=(), parent_src=""):
    return {"annots": [{"n": n, "fam": f} for n, f in annots], "body": list(body), "opts": o or opts(), "inh": [{"n": n, "fam": f} for n, f in inh],
            "parent_src": parent_src}


BASES = {
    "plain": base([("x", "none"), ("ys", "seq"), ("opts", "map"), ("tags", "set"), ("_p", "none")], body=["x"]),
    "no_dunders": base([("x", "none"), ("ys", "seq")], body=["x"], o=opts(init=False, repr=False, eq=False)),
    "no_init": base([("x", "none")], body=["x"], o=opts(init=False)),
    "attrs_only": base([("x", "none"), ("y", "none")], body=["x"], o=opts(attrs=["x"])),
    "attrs_annotated_collections": base([("x", "none"), ("ys", "seq"), ("opts", "map"), ("tags", "set"), ("w", "none")], body=["x"], o=opts(attrs=["ys", "opts", "tags", "x"])),
    "attrs_typed": base([("x", "none")], body=["x"], o=opts(typed=[("zs", "seq")])),
    "attrs_skip": base([("x", "none"), ("ys", "seq")], body=["x"], o=opts(skip=["ys"], useskip=True)),
    "attrs_plus_annotations": base([("x", "none")], body=["x"], o=opts(attrs=["w"], skip=[], useskip=True)),
    "collision_fallback": base([("items", "seq"), ("item", "none")]),
    "collision_error": base([("items", "seq"), ("item", "none"), ("items_item", "none")]),
    "collision_fallback_clash": base([("value", "none"), ("values", "seq"), ("values_items", "seq")]),
    "collision_inherited": base([("item", "none")], inh=[("items", "seq")],
                                parent_src="@spec_class\nclass Parent:\n    items: List[int]\n"),
    "collision_parent_scalar": base([("items", "seq")], inh=[("item", "none")],
                                    parent_src="@spec_class\nclass Parent:\n    item: int\n"),
    "collision_redeclare": base([("items", "seq")], inh=[("item", "none"), ("items", "seq")],
                                parent_src="@spec_class\nclass Parent:\n    item: int\n    items: List[int]\n"),
    "collision_two_levels": base([("x", "none")], inh=[("item", "none"), ("items", "seq")],
                                 parent_src="@spec_class\nclass GrandParent:\n    items: List[int]\n\n@spec_class\nclass Parent(GrandParent):\n    item: int\n"),
    "collision_two_collections": base([("children", "seq"), ("childs", "map"), ("xs", "seq")]),
    "collision_inherited_collection": base([("childs", "map")], inh=[("children", "seq")],
                                           parent_src="@spec_class\nclass Parent:\n    children: List[int]\n"),
    # a key attribute that is NOT among the managed attributes gets no helpers
    "key_skipped": base([("k", "none"), ("x", "none")], body=["k", "x"], o=opts(skip=["k"], useskip=True, key="k")),
    "key_not_in_attrs": base([("k", "none"), ("x", "none")], body=["k", "x"], o=opts(attrs=["x"], key="k")),
    "key_private": base([("_id", "none"), ("x", "none")], body=["_id", "x"], o=opts(key="_id")),
    "key_managed": base([("k", "none"), ("x", "none")], body=["k", "x"], o=opts(key="k")),
    "overflow_public": base([("x", "none")], body=["x"], o=opts(overflow="extra")),
    "overflow_private": base([("x", "none")], body=["x"], o=opts(overflow="_cache")),
    "inherits": base([("y", "none")], body=["y"], inh=[("x", "none"), ("zs", "seq")],
                     parent_src="@spec_class\nclass Parent:\n    x: int = 0\n    zs: List[int] = []\n"),
    "private_in_attrs": base([("x", "none")], body=["x"], o=opts(attrs=["_secret"])),
}
KINDS = ["function", "staticmethod", "property", "value", "none", "zero", "empty"]     # the last three: plain values that are falsy
FALSY = {"none": "None", "zero": "0", "empty": "()"}


def description(name):
    b = BASES[name]
    names = [a["n"] for a in b["annots"]] + b["opts"]["attrs"] + [t["n"] for t in b["opts"]["typed"]] + [a["n"] for a in b["inh"]] + b["opts"]["skip"] \
        + ([b["opts"]["overflow"]] if b["opts"].get("overflow") else [])
    d = {k: b[k] for k in ("annots", "body", "opts", "inh")}
    d["priv"] = {n: n.startswith("_") for n in names} or {"_": True}
    d["sing"] = {n: get_singular_form(n) for n in names}
    # helper names the parents already provide: first use through the subclass may install the built method on the subclass too
    d["inh_helpers"] = sorted({f"{p}_{a['n']}" for a in b["inh"] for p in ("with", "update", "transform", "reset")}
                              | {f"{p}_{get_singular_form(a['n'])}" for a in b["inh"] if a["fam"] != "none" for p in ("with", "update", "transform", "without")})
    if not d["body"]:
        d["body"] = []
    return d


def class_source(name, extra, kind):
    b = BASES[name]
    lines = [HEADER, b["parent_src"]]
    lines.append("class A" + ("(Parent)" if b["parent_src"] else "") + ":")
    body = []
    for a in b["annots"]:
        body.append(f"{a['n']}: {FAM_TY[a['fam']]}" + (" = 1" if a["n"] in b["body"] else ""))
    if extra != "-":
        if kind == "function":
            if extra == "__init__":
                body.append("def __init__(self, *a, **k):\n    pass")
            elif extra == "__setattr__":
                body.append("def __setattr__(self, n, v):\n    object.__setattr__(self, n, v)")
            elif extra == "__getattr__":
                body.append("def __getattr__(self, n):\n    raise AttributeError(n)")
            elif extra == "__delattr__":
                body.append("def __delattr__(self, n):\n    object.__delattr__(self, n)")
            elif extra == "__deepcopy__":
                body.append("def __deepcopy__(self, memo):\n    return self")
            elif extra == "__eq__":
                body.append("def __eq__(self, other):\n    return self is other\n__hash__ = object.__hash__")
            else:
                body.append(f"def {extra}(self, *a, **k):\n    return 'user'")
        elif kind == "super_function":          # the override delegates to the parent's helper of the same name
            body.append(f"def {extra}(self, *a, **k):\n    return super().{extra}(*a, **k)")
        elif kind == "staticmethod":
            body.append(f"{extra} = staticmethod(lambda *a, **k: 'user')")
        elif kind == "property":
            body.append(f"{extra} = property(lambda self: 'user')")
        elif kind in FALSY:
            body.append(f"{extra} = {FALSY[kind]}")
        else:
            body.append(f"{extra} = 12345")
    if not body:
        body.append("pass")
    lines += [textwrap.indent(x, "    ") for x in body]
    return "\n".join(lines) + "\n"


def decorator_args(o, eager):
    args = {}
    if not o["init"]:
        args["init"] = False
    if not o["repr"]:
        args["repr"] = False
    if not o["eq"]:
        args["eq"] = False
    if o["attrs"]:
        args["attrs"] = list(o["attrs"])
    if o["typed"]:
        from typing import Dict, List, Set
        args["attrs_typed"] = {t["n"]: {"none": int, "seq": List[int], "map": Dict[str, int], "set": Set[str]}[t["fam"]] for t in o["typed"]}
    if o["useskip"]:
        args["attrs_skip"] = list(o["skip"])
    if o.get("key"):
        args["key"] = o["key"]
    if o.get("overflow"):
        args["init_overflow_attr"] = o["overflow"]
    if eager:
        args["bootstrap"] = True
    return args


SKIP_USER = {"__dict__", "__weakref__", "__annotations__"}


def run_case(case):
    name, extra, kind, eager = case
    b = BASES[name]
    ns = {"__name__": f"deco_{name}"}
    exec(class_source(name, extra, kind), ns)
    cls = ns["A"]
    # helper names the parents already provide (first use through the subclass may install the built method on the subclass too)
    for base_ in cls.__mro__[1:]:
        getattr(base_, "__spec_class__", None)          # parents bootstrapped: their helper names are what A inherits
    inherited_helpers = sorted(n for base_ in cls.__mro__[1:] for n in vars(base_) if n.startswith(("with_", "update_", "transform_", "reset_", "without_")))
    snap0 = dict(cls.__dict__)
    declared = sorted(snap0)
    watch = {n: v for n, v in snap0.items() if n not in SKIP_USER and not isinstance(v, (Attr, dataclasses.Field))}
    phases, res = [], "ok"

    def snap(label):
        cur = cls.__dict__
        phases.append({"phase": label, "names": sorted(cur), "replaced": sorted(n for n, v in watch.items() if n not in cur or cur[n] is not v)})

    try:
        spec_class(**decorator_args(b["opts"], eager))(cls)
        snap("decorated")
        cls.__spec_class__
        snap("bootstrapped")
        for n in sorted(set(dir(cls)) - set(dir(object))):
            try:
                getattr(cls, n)
            except Exception:  # noqa: BLE001
                pass
        try:
            inst = cls()
            for n in sorted(set(dir(cls)) - set(dir(object))):
                try:
                    m = getattr(inst, n)
                    if kind == "super_function" and n == extra:
                        m()          # reaches the parent's helper through super() (the call itself may well fail for want of arguments)
                except Exception:  # noqa: BLE001
                    pass
        except Exception:  # noqa: BLE001
            pass
        snap("used")
    except Exception as e:  # noqa: BLE001
        res = type(e).__name__
        snap("failed")
    return {"base": name, "extra": extra, "kind": kind, "eager": eager, "D": dict(description(name), inh_helpers=sorted(set(description(name)["inh_helpers"]) | set(inherited_helpers)), body=sorted(set(description(name)["body"]) | ({extra} if extra != "-" else set()))),
            "declared": declared, "phases": phases, "res": res}


def run_cases(cases):
    return [run_case(c) for c in cases]
