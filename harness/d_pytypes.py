"""Driver for C15: check_type on (annotation, value) pairs enumerated by TLC and on random deeper terms."""
import random

from . import common, pyval
from spec_classes.utils.type_checking import check_type


def run_pairs(job):
    types, pool, style0 = job
    out = []
    gv = [pyval.gamma(v) for v in pool]
    for ti, T in enumerate(types):
        style = (ti + style0) % 8
        ann = pyval.gamma_type(T, style)
        for v, real in zip(pool, gv):
            try:
                r = check_type(real, ann)
                res = "accept" if r is True else "reject" if r is False else "nonbool"
            except Exception as e:  # noqa: BLE001
                res = "raise:" + type(e).__name__
            out.append({"T": T, "v": v, "style": style, "res": res})
    return out


# ------------------------------------------------------------------ random deeper terms (depth <= 3)

def rand_type(rnd, depth, atoms):
    if depth == 0 or rnd.random() < 0.25:
        return rnd.choice(atoms)
    k = rnd.choice(["list", "set", "dict", "tuple", "tuplevar", "union", "optional", "type"])
    sub = lambda: rand_type(rnd, depth - 1, atoms)
    if k == "list":
        return {"k": "list", "a": sub()}
    if k == "set":
        return {"k": "set", "a": rnd.choice([a for a in atoms if a["k"] in ("base", "any", "literal", "bounded")])}
    if k == "dict":
        return {"k": "dict", "a": rnd.choice([a for a in atoms if a["k"] in ("base", "any")]), "b": sub()}
    if k == "tuple":
        return {"k": "tuple", "as": [sub() for _ in range(rnd.randint(0, 3))]}
    if k == "tuplevar":
        return {"k": "tuplevar", "a": sub()}
    if k == "union":
        return {"k": "union", "as": [sub() for _ in range(rnd.randint(2, 3))]}
    if k == "optional":
        return {"k": "union", "as": [sub(), {"k": "base", "n": "none"}]}
    if rnd.random() < 0.3:
        return {"k": "typeu", "cs": rnd.sample(["A", "B", "C", "int", "str"], 2)}
    return {"k": "type", "c": rnd.choice(["A", "B", "C", "int", "any"])}


def rand_value(rnd, T, scalars, depth=0):
    """A value built to conform to T, then possibly broken at one structural position."""
    broken = rnd.random() < 0.3
    if broken or depth > 4:
        return rnd.choice(scalars)
    k = T["k"]
    sub = lambda t: rand_value(rnd, t, scalars, depth + 1)
    if k == "list":
        return {"t": "list", "e": [sub(T["a"]) for _ in range(rnd.randint(0, 3))]}
    if k == "set":
        es = []
        for _ in range(rnd.randint(0, 2)):
            e = sub(T["a"])
            if e["t"] in ("int", "str", "none", "float") and all(common.canon(e) != common.canon(x) and not (e["t"] in ("int", "float") and x["t"] in ("int", "float", "bool")) for x in es):
                es.append(e)
        return {"t": "set", "e": es}
    if k == "dict":
        es, seen = [], set()
        for _ in range(rnd.randint(0, 2)):
            kk = sub(T["a"])
            if kk["t"] not in ("int", "str", "none") or common.canon(kk) in seen:
                continue
            seen.add(common.canon(kk))
            es.append({"k": kk, "v": sub(T["b"])})
        return {"t": "dict", "e": es}
    if k == "tuple":
        xs = [sub(a) for a in T["as"]]
        if rnd.random() < 0.15:
            xs = xs[:-1] if xs else [rnd.choice(scalars)]
        return {"t": "tuple", "e": xs}
    if k == "tuplevar":
        return {"t": "tuple", "e": [sub(T["a"]) for _ in range(rnd.randint(0, 3))]}
    if k == "union":
        return sub(rnd.choice(T["as"]))
    if k in ("type", "typeu"):
        return {"t": "cls", "n": rnd.choice(["A", "B", "C", "int", "bool", "str"])}
    return rnd.choice(scalars)


def run_random(job):
    atoms, scalars, n, sd = job
    rnd = random.Random(sd)
    out = []
    for i in range(n):
        T = rand_type(rnd, 3, atoms)
        style = rnd.randrange(8)
        try:
            ann = pyval.gamma_type(T, style)
        except TypeError:
            continue
        for _ in range(4):
            v = rand_value(rnd, T, scalars)
            try:
                r = check_type(pyval.gamma(v), ann)
                res = "accept" if r is True else "reject" if r is False else "nonbool"
            except Exception as e:  # noqa: BLE001
                res = "raise:" + type(e).__name__
            out.append({"T": T, "v": v, "style": style, "res": res})
    return out
