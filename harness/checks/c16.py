"""C16 -- decoration adds exactly the documented helpers and never replaces user code."""
import os
import shutil

from .. import canary, common, pipeline, tla
from .. import d_decoration as D

CFG = """SPECIFICATION Spec
CONSTANTS
 D <- dd
 Dev = {%s}
INVARIANT UserPreserved
INVARIANT ExactHelpers
CHECK_DEADLOCK FALSE
"""
DUNDER_FUNCTION_ONLY = {"__init__", "__repr__", "__eq__", "__getattr__", "__setattr__", "__delattr__", "__deepcopy__"}


def main(tier):
    rep = common.Report("C16", tier)
    thorough = tier == "thorough"
    tmp = tla.scratch("c16-")
    try:
        cases = []
        for name in D.BASES:
            d = D.description(name)
            sub = os.path.join(tmp, name)
            os.makedirs(sub)
            with open(os.path.join(sub, "MC_Decoration.tla"), "w") as f:
                f.write(f"---- MODULE MC_Decoration ----\nEXTENDS Decoration\ndd == {tla.to_tla(d)}\n====\n")
            r = pipeline.mc_run(rep, "MC_Decoration", pipeline.write_cfg(sub, "d.cfg", CFG % ""), label=f"class dictionary machine [{name}]", dump=False,
                                workers=2, cwd=sub, library=tla.SPEC)
            gen = r["acts"]
            if name == "plain":
                out, _ = tla.run_tlc("MC_Decoration", pipeline.write_cfg(sub, "x.cfg", CFG % '"register_overwrites"'), workers=2, cwd=sub, library=tla.SPEC)
                if not tla.mc_violation(out):
                    raise tla.MachineryError("deviation register_overwrites does not violate UserPreserved")
                rep.coverage["deviation_counterexamples"] = {"register_overwrites": tla.mc_violation(out)}
            for eager in (False, True):
                cases.append((name, "-", "function", eager))
                if gen["raises"] or gen["illegal"]:
                    continue
                for n in sorted(gen["generated"]):
                    if n.startswith("__spec_class"):
                        continue
                    for kind in (["function", "none"] if n in DUNDER_FUNCTION_ONLY else D.KINDS):      # (`__eq__ = None` style switches-off are plain falsy values)
                        if not thorough and not eager and kind in ("staticmethod", "value", "zero", "empty") and name != "plain":
                            continue
                        cases.append((name, n, kind, eager))
                    if n in d["inh_helpers"]:          # the parent has a helper of this name: an override that calls super()
                        cases.append((name, n, "super_function", eager))
        rep.mark("mc")
        events = [e for o in pipeline.pmap(D.run_cases, common.chunks(cases, 16)) for e in o]
        rep.mark("drive")
        res = tla.judge("J_Decoration", events, chunk=1500, jobs=common.jobs())
        pipeline.canaries(rep, "J_Decoration", events[::max(1, len(events) // 40)], canary.decoration, env=None, want=16)
        rep.mark("judge")
        for gi, clause, _ in res["bad"]:
            e = events[gi]
            fin = e["phases"][-1]
            rep.violation(clause, {"family": "decoration", "base": e["base"], "extra": e["extra"], "kind": e["kind"], "eager": e["eager"], "res": e["res"],
                                   "final_names": fin["names"], "replaced": [p["replaced"] for p in e["phases"]], "source": D.class_source(e["base"], e["extra"], e["kind"])},
                          f"base={e['base']} extra={'-' if e['extra'] == '-' else 'occupied'} kind={e['kind']} eager={e['eager']} res={e['res']}")
        distinct = len({common.canon([e["base"], e["extra"], e["kind"], e["eager"]]) for e in events})
        rep.add_events(len(events), distinct, [{k: events[i][k] for k in ("base", "extra", "kind", "eager", "res")} | {"final_names": events[i]["phases"][-1]["names"]} for i in (0, 5)])
        rep.coverage.update({"class_descriptions": sorted(D.BASES), "judge_antecedents": res["ante"], "exhaustive": thorough})
        for k in ("ok", "errors", "occupied"):
            if not res["ante"].get(k):
                raise tla.MachineryError(f"judge antecedent {k} never true")
        rep.assumptions += ["singular forms come from the inflection library and are an input table of the model", "names starting with an underscore are classified private by the harness",
                            "Attr/field declarations in the class body are consumed by design and are not 'user code'"]
        return rep.finish(rule="every class description (annotation/selection/switch/collision variants) x every generated name pre-defined by the class body as function, "
                               "staticmethod, property or plain value (dunders as functions) x lazy/eager bootstrap; class __dict__ snapshotted after decoration, bootstrap and "
                               "first use of every attribute")
    finally:
        shutil.rmtree(tmp, ignore_errors=True)
