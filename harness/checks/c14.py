"""C14 -- KeyedSet is a set of items identified by key."""
import shutil

from .. import common, pipeline, tla
from .. import d_keyedset as D

DEVS = ["from_iterable_drops_config"]


def cfg_text(keys, payloads, maxlen, enforce, dev=""):
    ks = ", ".join(f'"{k}"' for k in keys)
    return f"""SPECIFICATION Spec
CONSTANTS
  Keys = {{{ks}}}
  Payloads = {{{", ".join(map(str, payloads))}}}
  MaxLen = {maxlen}
  Typed = TRUE
  Enforce = {"TRUE" if enforce else "FALSE"}
  Dev = {{{('"' + dev + '"') if dev else ""}}}
VIEW View
INVARIANT InvUnique
INVARIANT InvResolution
INVARIANT InvAlgebra
PROPERTY PropRefines
PROPERTY PropAtomic
CHECK_DEADLOCK FALSE
"""


def main(tier):
    rep = common.Report("C14", tier)
    thorough = tier == "thorough"
    nk, ml = (3, 3)
    keys = [chr(ord("a") + i) for i in range(nk)]
    tmp = tla.scratch("c14-")
    try:
        jobs = []
        for label, pays, flavours in (("keyed", [0, 1], ["fn", "spec", "unhash"]), ("self-keyed", [0], ["self"])):
            for enforce in (False, True):
                p = pipeline.write_cfg(tmp, f"{label}-{enforce}.cfg", cfg_text(keys, pays, ml, enforce))
                r = pipeline.mc_run(rep, "KeyedSet", p, label=f"{label}/enforce={enforce}", workers=8)
                states = [s["s"] for s in r["states"]]
                acts = r["acts"]
                if not thorough:
                    # quick: every mutator/read, but binary operands thinned to a deterministic half
                    acts = [a for i, a in enumerate(sorted(acts, key=common.canon)) if "o" not in a or i % 2 == 0]
                for fl in flavours:
                    for typed in (False, True):
                        for ch in common.chunks(states, 4):
                            jobs.append((fl, typed, enforce, ch, acts))
        pipeline.deviation_runs(rep, "KeyedSet", lambda d: cfg_text(keys, [0, 1], 3, False, d), DEVS)
        events = []
        for o in pipeline.pmap(D.run_table, jobs):
            events += o
        n_table = len(events)
        rjobs = []
        for fl in D.FLAVOURS:
            for typed in (False, True):
                for enforce in (False, True):
                    for w in range(4 if thorough else 1):
                        rjobs.append((fl, typed, enforce, common.seed() * 1000 + w, 300 if thorough else 40, 60, 10, 2))
        for o in pipeline.pmap(D.run_random, rjobs):
            events += o
        res = tla.judge("J_KeyedSet", events, chunk=25000, jobs=common.jobs())
        for gi, clause, detail in res["bad"]:
            e = events[gi]
            replay = {"family": "keyedset", "flavour": e["flavour"], "cfg": e["cfg"], "a": e["a"], "pre": e["pre"]["s"],
                      "post": e["post"]["s"], "res": e["res"], "ret": e["ret"], "hid": e.get("hid"), "seq": e.get("seq")}
            ok = e["a"].get("o", {}).get("kind", "")
            rep.violation(clause, replay, f"op={e['a']['op']} flavour={e['flavour']} typed={e['cfg']['typed']} enforce={e['cfg']['enforce']} operand={ok}")
        distinct = len({common.canon([e["cfg"], e["flavour"], e["pre"]["s"], e["a"]]) for e in events
                        if e["post"]["s"] != e["pre"]["s"] or e["res"] != "ok" or e["ret"]})
        samples = [{k: e[k] for k in ("flavour", "cfg", "a", "res", "ret")} | {"pre": e["pre"]["s"], "post": e["post"]["s"]}
                   for e in (events[11], events[len(events) // 2], events[-1])]
        rep.add_events(len(events), distinct, samples)
        rep.coverage.update({"table_events": n_table, "random_history_events": len(events) - n_table, "judge_antecedents": res["ante"],
                             "exhaustive": thorough,
                             "bounds": {"keys": nk, "max_len": ml, "payloads": 2, "operands": "<=2 items, KeyedSet (both enforce settings) and built-in set",
                                        "random": "<=10 keys, operands <=5 items, histories of 60 ops"}})
        for k in ("strict_algebra", "loose_algebra", "enforce_reject", "type_reject", "mutated"):
            if not res["ante"].get(k):
                raise tla.MachineryError(f"judge antecedent {k} never true: check would be vacuous")
        rep.assumptions += [
            "iteration order, which operand's item survives a binary operator, and which item pop() returns are not fixed by the property: compared as sets / membership",
            "key-algebra is demanded when operands are aligned (equal items under common keys) or both are KeyedSets without enforce_item_equivalence; "
            "otherwise membership is legitimately decided on whole items and only well-formedness of the result is judged",
            "a failing |= / ^= under enforce_item_equivalence must raise ValueError; its partial effect is not judged (the property states atomicity for add)",
            "for self-keyed items a bare key is an item (documented ambiguity): only item arguments are used there"]
        return rep.finish(rule="every distinct reachable KeyedSet content of the TLC model x every action (mutators, item-or-key reads, binary/in-place operators "
                               "against KeyedSet and built-in set operands), per item flavour (self-keyed, key function, keyed spec class, unhashable items) x typed x "
                               "enforce_item_equivalence, plus seeded random histories; non-trivial = changed the set, raised, or returned a value")
    finally:
        shutil.rmtree(tmp, ignore_errors=True)
