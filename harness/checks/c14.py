"""C14 -- KeyedSet is a set of items identified by key."""
import shutil

from .. import canary, common, pipeline, tla
from .. import d_keyedset as D

DEVS = ["from_iterable_drops_config"]


def _table(job):
    return D.run_table(job)


def _random(job):
    return D.run_random(job)


def _replay(e, detail):
    ok = e["a"].get("o", {}).get("kind", "")
    return ({"family": "keyedset", "flavour": e["flavour"], "cfg": e["cfg"], "a": e["a"], "pre": e["pre"]["s"],
             "post": e["post"]["s"], "res": e["res"], "ret": e["ret"], "hid": e.get("hid"), "seq": e.get("seq")},
            f"op={e['a']['op']} flavour={e['flavour']} typed={e['cfg']['typed']} enforce={e['cfg']['enforce']} operand={ok}")


def _key(e):
    return [e["cfg"], e["flavour"], e["pre"]["s"], e["a"], e.get("hid"), e.get("seq")]


def _nontrivial(e):
    return e["post"]["s"] != e["pre"]["s"] or e["res"] != "ok" or bool(e["ret"])


def cfg_text(keys, payloads, maxlen, enforce, dev=""):
    ks = ", ".join(f'"{k}"' for k in keys)
    return f"""SPECIFICATION Spec
CONSTANTS
  Keys = {{{ks}}}
  Payloads = {{{", ".join(map(str, payloads))}}}
  MaxLen = {maxlen}
  Typed = TRUE
  Enforce = {"TRUE" if enforce else "FALSE"}
  Dev = {{{('"' + dev + '"') if dev else ""}}}
VIEW View
INVARIANT InvUnique
INVARIANT InvResolution
INVARIANT InvAlgebra
PROPERTY PropRefines
PROPERTY PropAtomic
CHECK_DEADLOCK FALSE
"""


def main(tier):
    rep = common.Report("C14", tier)
    thorough = tier == "thorough"
    nk, ml = (3, 3)
    keys = [chr(ord("a") + i) for i in range(nk)]
    tmp = tla.scratch("c14-")
    try:
        jobs = []
        for label, pays, flavours in (("keyed", [0, 1], ["fn", "spec", "unhash", "attr", "fnz"]), ("self-keyed", [0], ["self", "selfu"])):
            for enforce in (False, True):
                p = pipeline.write_cfg(tmp, f"{label}-{enforce}.cfg", cfg_text(keys, pays, ml, enforce))
                r = pipeline.mc_run(rep, "KeyedSet", p, label=f"{label}/enforce={enforce}", workers=8)
                states = sorted((s["s"] for s in r["states"]), key=common.canon)
                acts = r["acts"]
                if not thorough:
                    # quick: every mutator/read, but binary operands thinned to a deterministic half
                    acts = [a for i, a in enumerate(sorted(acts, key=common.canon)) if "o" not in a or i % 2 == 0]
                for fl in flavours:
                    for typed in (False, True):
                        for ch in common.chunks(states, 4):
                            jobs.append((fl, typed, enforce, ch, acts))
        pipeline.deviation_runs(rep, "KeyedSet", lambda d: cfg_text(keys, [0, 1], 3, False, d), DEVS)
        rep.mark("mc")
        r1 = pipeline.run_judged(_table, jobs, "J_KeyedSet", replay_fn=_replay, key_fn=_key, nontrivial_fn=_nontrivial, chunk=25000)
        rep.mark("table")
        rjobs = []
        for fl in D.FLAVOURS:
            for typed in (False, True):
                for enforce in (False, True):
                    for w in range(4 if thorough else 1):
                        rjobs.append((fl, typed, enforce, common.seed() * 1000 + w, 300 if thorough else 40, 60, 10, 2))
        r2 = pipeline.run_judged(_random, rjobs, "J_KeyedSet", replay_fn=_replay, key_fn=_key, nontrivial_fn=_nontrivial, chunk=25000)
        rep.mark("random")
        pipeline.canaries(rep, "J_KeyedSet", r1["samples"] + r2["samples"], canary.keyedset, want=16)
        res = {"ante": {k: r1["ante"].get(k, 0) + r2["ante"].get(k, 0) for k in set(r1["ante"]) | set(r2["ante"])}}
        for clause, (replay, detail) in r1["bad"] + r2["bad"]:
            rep.violation(clause, replay, detail)
        samples = [{k: e[k] for k in ("flavour", "cfg", "a", "res", "ret")} | {"pre": e["pre"]["s"], "post": e["post"]["s"]}
                   for e in (r1["samples"] + r2["samples"])[:3]]
        rep.add_events(r1["n"] + r2["n"], r1["distinct"] + r2["distinct"], samples)
        n_table, n_all = r1["n"], r1["n"] + r2["n"]
        rep.coverage.update({"table_events": n_table, "random_history_events": n_all - n_table, "judge_antecedents": res["ante"],
                             "exhaustive": thorough,
                             "bounds": {"keys": nk, "max_len": ml, "payloads": 2, "operands": "<=2 items, KeyedSet (both enforce settings) and built-in set",
                                        "random": "<=10 keys, operands <=5 items, histories of 60 ops"}})
        for k in ("strict_algebra", "loose_algebra", "enforce_reject", "type_reject", "mutated"):
            if not res["ante"].get(k):
                raise tla.MachineryError(f"judge antecedent {k} never true: check would be vacuous")
        rep.assumptions += [
            "iteration order, which operand's item survives a binary operator, and which item pop() returns are not fixed by the property: compared as sets / membership",
            "key-algebra is demanded when operands are aligned (equal items under common keys) or both are KeyedSets without enforce_item_equivalence; "
            "otherwise membership is legitimately decided on whole items and only well-formedness of the result is judged",
            "a failing |= / ^= under enforce_item_equivalence must raise ValueError; its partial effect is not judged (the property states atomicity for add)",
            "for self-keyed items a bare key is an item (documented ambiguity): only item arguments are used there"]
        return rep.finish(rule="every distinct reachable KeyedSet content of the TLC model x every action (mutators, item-or-key reads, binary/in-place operators "
                               "against KeyedSet and built-in set operands), per item flavour (self-keyed, key function, keyed spec class, unhashable items) x typed x "
                               "enforce_item_equivalence, plus seeded random histories; non-trivial = changed the set, raised, or returned a value")
    finally:
        shutil.rmtree(tmp, ignore_errors=True)
