"""C18 -- Alias mirrors its target until overridden; passthrough writes reach the target."""
import json
import shutil

from .. import canary, common, pipeline, tla
from .. import d_alias as D

CFG = """SPECIFICATION Spec
CONSTANTS Dev = {%s}
VIEW View
PROPERTY PropShadow
PROPERTY PropLive
PROPERTY PropPassthrough
PROPERTY PropMissing
PROPERTY PropReadsPure
CHECK_DEADLOCK FALSE
"""


def main(tier):
    rep = common.Report("C18", tier)
    thorough = tier == "thorough"
    tmp = tla.scratch("c18-")
    try:
        r = pipeline.mc_run(rep, "Alias", pipeline.write_cfg(tmp, "a.cfg", CFG % ""), label="alias configurations", workers=4)
        pipeline.deviation_runs(rep, "Alias", lambda d: CFG % ('"' + d + '"'), ["shadow_writes_target", "delete_hits_target"])
        COLL_CFG = "SPECIFICATION Spec\nCONSTANTS\n Dev = {}\n MaxLen = 3\nVIEW View\nPROPERTY PropShadow\nPROPERTY PropLive\nPROPERTY PropPassthrough\nPROPERTY PropItem\nCHECK_DEADLOCK FALSE\n"
        rc = pipeline.mc_run(rep, "AliasColl", pipeline.write_cfg(tmp, "c.cfg", COLL_CFG), label="collection-typed alias (element helpers)", workers=4)
        rep.mark("mc")
        cfgs = [json.loads(c) for c in sorted({common.canon(s["cfg"]) for s in r["states"]})]
        if len(cfgs) != 288:
            raise tla.MachineryError(f"expected 288 alias configurations, got {len(cfgs)}")
        acts = sorted(r["acts"], key=common.canon)
        L = 4 if thorough else 3
        nr, rl = (300, 10) if thorough else (100, 8)
        jobs = [([c], acts, L, nr, rl, common.seed() + i, 4 if thorough else 1) for i, c in enumerate(cfgs)]
        ccfgs = [json.loads(c) for c in sorted({common.canon(s["cfg"]) for s in rc["states"]})]
        cacts = sorted(rc["acts"], key=common.canon)
        jobs += [([c], cacts, 4 if thorough else 3, nr, rl, common.seed() + 1000 + i) for i, c in enumerate(ccfgs)]
        events = []
        for o in pipeline.pmap(D.run, jobs):
            events += o
        rep.mark("drive")
        res = tla.judge("J_Alias", events, chunk=8000 if not thorough else 20000, jobs=common.jobs())
        pipeline.canaries(rep, "J_Alias", events[::max(1, len(events) // 40)], canary.steps_family, env=None, want=16)
        rep.mark("judge")
        for gi, clause, detail in res["bad"]:
            e = events[gi]
            c = e["cfg"]
            rep.violation(clause, {"family": "alias", "cfg": c, "path": [s["a"] for s in e["steps"]],
                                   "observed": [[s["res"], s["val"], s["st"], s["warns"]] for s in e["steps"]], "failing_step": detail},
                          f"pt={c['pt']} tr={c['tr']} fb={c['fb']} path={c['path']} host={c['host']} dep={c['dep']} step_op={e['steps'][int(detail) - 1]['a']['op']}")
        steps = sum(len(e["steps"]) for e in events)
        distinct = len({common.canon([e["cfg"], [s["a"] for s in e["steps"]]]) for e in events})
        rep.add_events(len(events), distinct, [events[3], events[-3]])
        rep.coverage.update({"paths": len(events), "accesses": steps, "judge_antecedents": res["ante"], "exhaustive": True,
                             "bounds": {"path_len": L, "random_paths_per_config": nr, "random_len": rl, "configurations": len(cfgs)}})
        for k in ("alias_reads", "missing_target_reads", "errors", "warned"):
            if not res["ante"].get(k):
                raise tla.MachineryError(f"judge antecedent {k} never true")
        rep.assumptions += ["deleting a missing target (directly or through a passthrough alias) may raise AttributeError or KeyError: the property names the class only for reads",
                            "parents of the target (o, d) always exist; only the final attribute / key goes missing"]
        return rep.finish(rule="(thorough: all paths one step shorter and every 4th path of the given length) all access paths of the given length over the model's alphabet (alias/target read, write, delete, copy-on-write helper, deepcopy) "
                               "for each of the 288 alias configurations, plus random longer paths; every path distinct")
    finally:
        shutil.rmtree(tmp, ignore_errors=True)
