"""C12 -- spec_property and classproperty follow the override / cache / getter protocol."""
import shutil

from .. import canary, common, pipeline, tla
from .. import d_specproperty as D

SP_CFG = """SPECIFICATION Spec
CONSTANTS Dev = {%s}
VIEW View
INVARIANT InvSlot
PROPERTY PropPriority
PROPERTY PropAssign
PROPERTY PropDelete
PROPERTY PropTyped
CHECK_DEADLOCK FALSE
"""
CP_CFG = """SPECIFICATION Spec
VIEW View
PROPERTY PropIsolation
PROPERTY PropNoCache
PROPERTY PropRead
CHECK_DEADLOCK FALSE
"""


def main(tier):
    rep = common.Report("C12", tier)
    thorough = tier == "thorough"
    tmp = tla.scratch("c12-")
    try:
        r1 = pipeline.mc_run(rep, "SpecProperty", pipeline.write_cfg(tmp, "sp.cfg", SP_CFG % ""), label="spec_property 16x3", workers=4)
        r2 = pipeline.mc_run(rep, "ClassProperty", pipeline.write_cfg(tmp, "cp.cfg", CP_CFG), label="classproperty 32", workers=4)
        pipeline.deviation_runs(rep, "SpecProperty", lambda d: SP_CFG % ('"' + d + '"'), ["assign_unguarded", "delete_keeps_cache"])
        rep.mark('mc')
        sp_cfgs = sorted({common.canon(s["cfg"]) for s in r1["states"]})
        cp_cfgs = sorted({common.canon(s["cfg"]) for s in r2["states"]})
        import json
        sp_cfgs = [json.loads(c) for c in sp_cfgs]
        cp_cfgs = [json.loads(c) for c in cp_cfgs]
        if len(sp_cfgs) != 64 or len(cp_cfgs) != 32:
            raise tla.MachineryError(f"expected 64/32 configurations from the models, got {len(sp_cfgs)}/{len(cp_cfgs)}")
        sp_acts = sorted(r1["acts"], key=common.canon)
        cp_acts = sorted(r2["acts"], key=common.canon)
        L_sp, L_cp = (5, 4) if thorough else (4, 3)
        nr, rl = (400, 10) if thorough else (150, 8)
        # thorough: every path one step shorter, and every 8th path of the full length (the alphabets grew with the None values)
        stride = 8 if thorough else 1
        jobs_sp = [([c], sp_acts, L_sp, nr, rl, common.seed() + i, stride) for i, c in enumerate(sp_cfgs)]
        jobs_cp = [([c], cp_acts, L_cp, nr, rl, common.seed() + i, stride) for i, c in enumerate(cp_cfgs)]
        events = []
        for o in pipeline.pmap(D.run_sp, jobs_sp):
            events += o
        n_sp = len(events)
        for o in pipeline.pmap(D.run_cp, jobs_cp):
            events += o
        rep.mark('drive')
        res = tla.judge("J_SpecProperty", events, chunk=6000, jobs=common.jobs())
        pipeline.canaries(rep, "J_SpecProperty", events[::max(1, len(events) // 40)], canary.steps_family, env=None, want=16)
        rep.mark('judge')
        from . import _spfrozen
        _spfrozen.run(rep, tier)
        rep.mark('frozen hosts')
        for gi, clause, detail in res["bad"]:
            e = events[gi]
            rep.violation(clause, {"family": e["kind"], "cfg": e["cfg"], "path": [s["a"] for s in e["steps"]],
                                   "observed": [[s["res"], s["val"], s["st"]] for s in e["steps"]], "failing_step": detail},
                          f"kind={e['kind']} cfg={common.canon(e['cfg'])}")
        steps = sum(len(e["steps"]) for e in events)
        distinct = len({common.canon([e["kind"], e["cfg"], e.get("shared", False), [s["a"] for s in e["steps"]]]) for e in events})
        rep.add_events(len(events), distinct, [events[5], events[n_sp + 5]])
        rep.coverage.update({"paths_spec_property": n_sp, "paths_classproperty": len(events) - n_sp, "accesses": steps,
                             "judge_antecedents": res["ante"], "exhaustive": True,
                             "bounds": {"spec_property_path_len": L_sp, "classproperty_path_len": L_cp, "full_length_stride": stride, "random_paths_per_config": nr, "random_len": rl}})
        for k in ("reads", "rejected_assign", "rejected_delete", "type_errors"):
            if not res["ante"].get(k):
                raise tla.MachineryError(f"judge antecedent {k} never true")
        rep.assumptions += ["user-written setter/deleter touch only a backing slot the getter does not read (DESIGN A8)",
                            "classproperty assignment/deletion go through instances (class-level assignment replaces the descriptor, as documented)"]
        return rep.finish(rule="all access paths of the given length over {read, assign int, assign str, delete, set underlying state} for each of the "
                               "64 spec_property and 32 classproperty configurations of the TLC models, plus random longer paths; every path is distinct")
    finally:
        shutil.rmtree(tmp, ignore_errors=True)
