"""C10 -- equality, copying and repr are coherent and total."""
import json
import os
import shutil

from .. import canary, common, pipeline, tla
from .. import d_equality as D

CFG = """SPECIFICATION Spec
CONSTANTS
 ET <- et
 Pool <- pool
 Dev = {%s}
INVARIANT Reflexive
INVARIANT Symmetric
INVARIANT Transitive
INVARIANT Exact
CHECK_DEADLOCK FALSE
"""


def main(tier):
    rep = common.Report("C10", tier)
    thorough = tier == "thorough"
    tmp = tla.scratch("c10-")
    try:
        pool = D.pool()
        extra = D.extra_pool()          # collection-valued attributes (member order)
        et = dict(D.ET)
        # model checking over all triples of a reduced pool (all attribute kinds at every position, all three classes)
        small = [x for x in pool if x["a"]["b"]["i"] == 0 or x["a"]["f"]["t"] == "int"]
        small = small if thorough else [x for x in small if x["a"]["g"]["t"] == "none" or x["a"]["f"]["t"] in ("bm", "missing")][:60]
        small = small + extra[:len(D.GX)] + extra[len(D.GX):len(D.GX) + 4]
        with open(os.path.join(tmp, "MC_Equality.tla"), "w") as f:
            f.write(f"---- MODULE MC_Equality ----\nEXTENDS Equality\net == {tla.to_tla(et)}\n"
                    f"pool == {tla.to_tla({'$set': small})}\n====\n")
        pipeline.mc_run(rep, "MC_Equality", pipeline.write_cfg(tmp, "e.cfg", CFG % ""), label=f"equality laws over all triples of {len(small)} instances",
                        dump=False, acts=False, workers=16, cwd=tmp, library=tla.SPEC, timeout=1200)
        out, _ = tla.run_tlc("MC_Equality", pipeline.write_cfg(tmp, "d.cfg", CFG % '"eq_returns_at_first_method"'), workers=8, cwd=tmp, library=tla.SPEC)
        if not tla.mc_violation(out):
            raise tla.MachineryError("deviation eq_returns_at_first_method does not violate the equality laws")
        rep.coverage["deviation_counterexamples"] = {"eq_returns_at_first_method": tla.mc_violation(out)}
        rep.mark("mc")
        xs = (pool if thorough else pool[::2]) + extra
        pool = pool + extra
        jobs = [(ch, xs) for ch in common.chunks(xs, 16)]
        events = [e for o in pipeline.pmap(D.run_pairs, jobs) for e in o]
        events += [e for o in pipeline.pmap(D.run_triples, [(pool, 20000 if thorough else 3000, common.seed() * 10 + w) for w in range(8)]) for e in o]
        rev, et_r = D.run_reprs(None)
        events += rev
        et.update(et_r)
        rep.mark("drive")
        scnp = os.path.join(tmp, "et.json")
        with open(scnp, "w") as f:
            json.dump(et, f)
        res = tla.judge("J_Equality", events, chunk=20000, jobs=common.jobs(), env={"VERIF_SCN": scnp})
        pipeline.canaries(rep, "J_Equality", [e for e in events if e["kind"] == "repr"][:5] + events[::max(1, len(events) // 40)], canary.equality, env={"VERIF_SCN": scnp}, want=24)
        rep.mark("judge")
        for gi, clause, _ in res["bad"]:
            e = events[gi]
            kinds = "/".join(sorted({v["t"] for k in ("x", "y", "z") if k in e for v in e[k]["a"].values()}))
            rep.violation(clause, {"family": "equality", **{k: e[k] for k in e if k != "kind"}, "kind": e["kind"]},
                          f"kind={e['kind']} classes={'/'.join(e[k]['c'] for k in ('x', 'y', 'z') if k in e)} label={e.get('label', '')} f={e.get('x', {}).get('a', {}).get('f', {}).get('t', '')}")
        distinct = len({common.canon(e) for e in events})
        rep.add_events(len(events), distinct, [events[1], events[-1]])
        rep.coverage.update({"instances_in_pool": len(pool), "judge_antecedents": res["ante"], "exhaustive": thorough})
        for k in ("pairs", "equal_pairs", "triples", "reprs"):
            if not res["ante"].get(k):
                raise tla.MachineryError(f"judge antecedent {k} never true")
        rep.assumptions += ["a bound method stored on an instance is a method of that instance itself", "repr attribute names are parsed by bracket matching of the top-level name= tokens"]
        return rep.finish(rule="all ordered pairs of the instance pool (3 classes x attribute kinds int / own bound method (2) / function / class / module / missing at the first "
                               "position, value or missing at the second, compare=False and repr=False attributes, a method-valued attribute after them), sampled triples biased "
                               "towards equal pairs, deepcopy and reconstruction of every instance, repr of every instance and of self-referential structures")
    finally:
        shutil.rmtree(tmp, ignore_errors=True)
