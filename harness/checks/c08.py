"""C08 -- instances share no mutable state with defaults, constructor arguments or peers."""
import json
import os
import shutil

from .. import canary, common, pipeline, tla
from .. import d_defaults as D
from . import _sc

HEAP_CFG = """SPECIFICATION Spec
CONSTANTS
 Insts = {%s}
 Dev = {%s}
 MaxCells = %d
INVARIANT NoSharing
PROPERTY PokeIsolated
PROPERTY DefaultsStable
CHECK_DEADLOCK FALSE
"""


def main(tier):
    rep = common.Report("C08", tier)
    thorough = tier == "thorough"
    tmp = tla.scratch("c08-")
    try:
        insts = '"i1", "i2", "i3"' if thorough else '"i1", "i2"'
        pipeline.mc_run(rep, "CowHeap", pipeline.write_cfg(tmp, "h.cfg", HEAP_CFG % (insts, "", 10 if thorough else 9)), label="heap/alias model of the copy rules",
                        dump=False, acts=False, workers=8)
        pipeline.deviation_runs(rep, "CowHeap", lambda d: HEAP_CFG % ('"i1", "i2"', '"' + d + '"', 8),
                                ["construct_shares_default", "construct_shares_arg", "copy_shares", "reset_shares_default"])
        rep.mark("mc")
        nh = 150 if thorough else 30
        res_jobs = pipeline.pmap(D.run_histories, [(common.seed() * 100 + w, nh, 40) for w in range(16)])
        events = [e for o, _ in res_jobs for e in o]
        dt = res_jobs[0][1]
        rep.mark("drive")
        scnp = os.path.join(tmp, "dt.json")
        with open(scnp, "w") as f:
            json.dump(dt, f)
        res = tla.judge("J_Defaults", events, chunk=3000, jobs=common.jobs(), env={"VERIF_SCN": scnp}, heap="3g")
        pipeline.canaries(rep, "J_Defaults", events[::max(1, len(events) // 40)], canary.defaults, env={"VERIF_SCN": scnp}, want=16)
        rep.mark("judge")
        for gi, clause, _ in res["bad"]:
            e = events[gi]
            rep.violation(clause, {"family": "defaults", "op": e["op"], "detail": e["detail"], "target": e["target"], "attrs": e["attrs"], "res": e["res"],
                                   "hid": e["hid"], "seq": e["seq"], "post": e["post"]},
                          f"op={e['op']} detail={e['detail']} res={e['res']}")
        distinct = len({common.canon([e["hid"], e["seq"]]) for e in events})
        rep.add_events(len(events), distinct, [{k: events[i][k] for k in ("op", "detail", "target", "attrs", "given", "res")} | {"roots": len(events[i]["post"])} for i in (0, 7, 21)])
        rep.coverage.update({"histories": 16 * nh, "judge_antecedents": res["ante"], "default_declarations": ["mutable literal", "Attr(default=)", "Attr(default_factory=)",
                             "dataclasses.field(default_factory=)", "mutable spec-class instance", "immutable literal", "no default", "re-default in spec subclass",
                             "override in plain subclass", "override in plain subclass of a spec subclass"]})
        for k in ("pokes", "resets", "constructs", "with_args"):
            if not res["ante"].get(k):
                raise tla.MachineryError(f"judge antecedent {k} never true")
        # the state x action tables of the core scenarios contribute the per-call clauses (peer / class default untouched)
        r2 = _sc.R.collect(rep, ["list_int", "set_str", "nested", "list_spec", "dflt_kinds", "dflt_kinds2", "inherit_spec", "inherit_plain", "inherit_plain_mut", "inherit_dnc", "spec_plain_spec", "dnc_plain_redefault"], tier, max_pairs=6000 if not thorough else None, seed=common.seed())
        _sc.R.report_clauses(rep, r2, ["c08_"])
        rep.add_events(r2["n"], r2["distinct"], [])
        rep.assumptions += ["in-place mutation of nested values ('pokes') uses direct container operations and in-place helpers at depth",
                            "nearest-default rule takes the MRO from the real classes as an input"]
        return rep.finish(rule="random histories (40 operations each) over Base / spec subclass / plain subclass / plain subclass of spec subclass mixing construction with retained "
                               "argument objects, pokes, reset_<attr>, reset, del, copy-on-write derivations and drops, all roots projected before and after every operation; "
                               "plus the (state, action) tables of four core scenarios for the per-call clauses; every history step is distinct")
    finally:
        shutil.rmtree(tmp, ignore_errors=True)
