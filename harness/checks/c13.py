"""C13 -- KeyedList is a list with unique keys and a coherent key index."""
import shutil

from .. import common, pipeline, tla
from .. import d_keyedlist as D

DEVS = ["setitem_delete_first", "extend_stepwise", "reverse_by_swaps"]


def cfg_text(keys, payloads, maxlen, intkeys, dev=""):
    ks = ", ".join(str(k) if intkeys else f'"{k}"' for k in keys)
    return f"""SPECIFICATION Spec
CONSTANTS
  Keys = {{{ks}}}
  Payloads = {{{", ".join(map(str, payloads))}}}
  MaxLen = {maxlen}
  Typed = TRUE
  IntKeys = {"TRUE" if intkeys else "FALSE"}
  Dev = {{{('"' + dev + '"') if dev else ""}}}
VIEW View
INVARIANT InvUnique
INVARIANT InvCoherent
INVARIANT InvReads
PROPERTY PropAtomic
PROPERTY PropListLike
CHECK_DEADLOCK FALSE
"""


def main(tier):
    rep = common.Report("C13", tier)
    thorough = tier == "thorough"
    nk, ml = (4, 4) if thorough else (3, 3)
    skeys = [chr(ord("a") + i) for i in range(nk)]
    models = [
        # label, keys, payloads, intkeys, flavours driven from it
        ("str-keys", skeys, [0, 1], False, ["fn", "spec"]),
        ("self-keyed", skeys, [0], False, ["self"]),
        ("int-keys", list(range(nk)), [0, 1], True, ["intkey"]),
    ]
    tmp = tla.scratch("c13-")
    try:
        jobs = []
        for label, keys, pays, intkeys, flavours in models:
            p = pipeline.write_cfg(tmp, f"{label}.cfg", cfg_text(keys, pays, ml, intkeys))
            r = pipeline.mc_run(rep, "KeyedList", p, label=label, workers=8)
            states = [s["lst"] for s in r["states"]]
            acts = r["acts"]
            universe = [{"k": k, "p": q, "bad": "no"} for k in keys for q in pays]
            idxs = list(range(-ml - 1, ml + 2))
            for fl in flavours:
                for typed in (False, True):
                    for ch in common.chunks(states, 6 if thorough else 3):
                        jobs.append((fl, typed, ch, acts, keys, universe, idxs))
        pipeline.deviation_runs(rep, "KeyedList", lambda d: cfg_text(["a", "b", "c"], [0, 1], 3, False, d), DEVS)
        ops, rds = [], []
        for o, r in pipeline.pmap(D.run_table, jobs):
            ops += o
            rds += r
        n_table = len(ops)
        # random histories beyond the exhaustive bound (<= 12 items, 12 keys)
        rjobs = []
        nh = 400 if thorough else 60
        for fl in D.FLAVOURS:
            for typed in (False, True):
                for w in range(4 if thorough else 1):
                    rjobs.append((fl, typed, common.seed() * 1000 + w, nh, 60, 12, 2))
        for o, r in pipeline.pmap(D.run_random, rjobs):
            ops += o
            rds += r
        events = ops + rds
        res = tla.judge("J_KeyedList", events, chunk=25000, jobs=common.jobs())
        for gi, clause, detail in res["bad"]:
            e = events[gi]
            replay = {"family": "keyedlist", "flavour": e["flavour"], "cfg": e["cfg"], "a": e.get("a"),
                      "pre": e.get("pre", {}).get("lst"), "post": e["post"]["lst"], "res": e.get("res"),
                      "explained_by_deviation": detail, "kind": e["kind"], "hid": e.get("hid"), "seq": e.get("seq")}
            rep.violation(clause, replay, f"op={e.get('a', {}).get('op')} flavour={e['flavour']} typed={e['cfg']['typed']} dev={detail}")
        distinct = len({common.canon([e["cfg"], e["flavour"], e["pre"]["lst"], e["a"]]) for e in ops
                        if e["post"]["lst"] != e["pre"]["lst"] or e["res"] != "ok"})
        samples = [{k: e[k] for k in ("flavour", "cfg", "a", "res", "ret")} | {"pre": e["pre"]["lst"], "post": e["post"]["lst"]}
                   for e in (ops[7], ops[len(ops) // 2], ops[-1])]
        rep.add_events(len(events), distinct, samples)
        rep.coverage.update({"table_events": n_table, "random_history_events": len(ops) - n_table,
                             "distinct_read_observations": len(rds), "judge_antecedents": res["ante"],
                             "exhaustive": True,
                             "bounds": {"keys": nk, "max_len": ml, "payloads": 2, "random": "<=12 items over 12 keys, histories of 60 ops"}})
        for k in ("atomic", "duplicate_rule", "type_rule", "mutated", "reads"):
            if not res["ante"].get(k):
                raise tla.MachineryError(f"judge antecedent {k} never true: check would be vacuous")
        rep.assumptions += ["pre-states of the exhaustive table are built by the KeyedList constructor (item-by-item insert)",
                            "keys()/items() are compared as sets (dict views), list order only for the list itself",
                            "when several failure causes apply to one call any of their exception classes is accepted"]
        return rep.finish(rule="every distinct reachable list content of the TLC model x every action of the exported action universe, "
                               "per item flavour (self-keyed, key function, keyed spec class, int keys) typed and untyped, plus seeded random "
                               "histories; non-trivial = the call changed the container or raised; distinct by (config, flavour, pre-state, action)")
    finally:
        shutil.rmtree(tmp, ignore_errors=True)
