"""C13 -- KeyedList is a list with unique keys and a coherent key index."""
import shutil

from .. import canary, common, pipeline, tla
from .. import d_keyedlist as D

DEVS = ["setitem_delete_first", "extend_stepwise", "reverse_by_swaps"]


def _table(job):
    return D.run_table(job)


def _random(job):
    return D.run_random(job)


def _replay(e, detail):
    return ({"family": "keyedlist", "flavour": e["flavour"], "cfg": e["cfg"], "a": e.get("a"), "pre": e.get("pre", {}).get("lst"),
             "post": e["post"]["lst"], "res": e.get("res"), "explained_by_deviation": detail, "kind": e["kind"], "hid": e.get("hid"), "seq": e.get("seq")},
            f"op={e.get('a', {}).get('op')} flavour={e['flavour']} typed={e['cfg']['typed']} dev={detail}")


def _key(e):
    return [e["cfg"], e["flavour"], e.get("pre", e["post"])["lst"], e.get("a"), e.get("hid"), e.get("seq"), e["kind"]]


def _nontrivial(e):
    return e["kind"] == "op" and (e["post"]["lst"] != e["pre"]["lst"] or e["res"] != "ok")


def cfg_text(keys, payloads, maxlen, intkeys, dev=""):
    ks = ", ".join(str(k) if intkeys else f'"{k}"' for k in keys)
    return f"""SPECIFICATION Spec
CONSTANTS
  Keys = {{{ks}}}
  Payloads = {{{", ".join(map(str, payloads))}}}
  MaxLen = {maxlen}
  Typed = TRUE
  IntKeys = {"TRUE" if intkeys else "FALSE"}
  Dev = {{{('"' + dev + '"') if dev else ""}}}
VIEW View
INVARIANT InvUnique
INVARIANT InvCoherent
INVARIANT InvReads
PROPERTY PropAtomic
PROPERTY PropListLike
CHECK_DEADLOCK FALSE
"""


def main(tier):
    rep = common.Report("C13", tier)
    thorough = tier == "thorough"
    nk, ml = (4, 4) if thorough else (3, 3)
    skeys = [chr(ord("a") + i) for i in range(nk)]
    models = [
        # label, keys, payloads, intkeys, flavours driven from it
        ("str-keys", skeys, [0, 1], False, ["fn", "spec"]),
        ("self-keyed", skeys, [0], False, ["self"]),
        ("int-keys", list(range(nk)), [0, 1], True, ["intkey"]),
    ]
    tmp = tla.scratch("c13-")
    try:
        jobs = []
        for label, keys, pays, intkeys, flavours in models:
            p = pipeline.write_cfg(tmp, f"{label}.cfg", cfg_text(keys, pays, ml, intkeys))
            r = pipeline.mc_run(rep, "KeyedList", p, label=label, workers=8)
            states = sorted((s["lst"] for s in r["states"]), key=common.canon)
            acts = r["acts"]
            universe = [{"k": k, "p": q, "bad": "no"} for k in keys for q in pays]
            idxs = list(range(-ml - 1, ml + 2))
            for fl in flavours:
                for typed in (False, True):
                    for ch in common.chunks(states, 40 if thorough else 3):
                        jobs.append((fl, typed, ch, acts, keys, universe, idxs))
        rep.mark("mc")
        pipeline.deviation_runs(rep, "KeyedList", lambda d: cfg_text(["a", "b", "c"], [0, 1], 3, False, d), DEVS)
        rep.mark("deviations")
        r1 = pipeline.run_judged(_table, jobs, "J_KeyedList", replay_fn=_replay, key_fn=_key, nontrivial_fn=_nontrivial)
        rep.mark("table")
        # random histories beyond the exhaustive bound (<= 12 items, 12 keys)
        rjobs = []
        nh = 400 if thorough else 60
        for fl in D.FLAVOURS:
            for typed in (False, True):
                for w in range(4 if thorough else 1):
                    rjobs.append((fl, typed, common.seed() * 1000 + w, nh, 60, 12, 2))
        r2 = pipeline.run_judged(_random, rjobs, "J_KeyedList", replay_fn=_replay, key_fn=_key, nontrivial_fn=_nontrivial)
        rep.mark("random")
        pipeline.canaries(rep, "J_KeyedList", r1["samples"] + r2["samples"], canary.keyedlist, want=16)
        res = {"ante": {k: r1["ante"].get(k, 0) + r2["ante"].get(k, 0) for k in set(r1["ante"]) | set(r2["ante"])}}
        for clause, (replay, detail) in r1["bad"] + r2["bad"]:
            rep.violation(clause, replay, detail)
        samples = [{k: e[k] for k in ("flavour", "cfg", "a", "res", "ret") if k in e} | {"pre": e.get("pre", {}).get("lst"), "post": e["post"]["lst"]}
                   for e in (r1["samples"] + r2["samples"])[:3]]
        rep.add_events(r1["n"] + r2["n"], r1["distinct"] + r2["distinct"], samples)
        rep.coverage.update({"table_events": r1["n"], "random_history_events": r2["n"],
                             "judge_antecedents": res["ante"],
                             "exhaustive": True,
                             "bounds": {"keys": nk, "max_len": ml, "payloads": 2, "random": "<=12 items over 12 keys, histories of 60 ops"}})
        for k in ("atomic", "duplicate_rule", "type_rule", "mutated", "reads"):
            if not res["ante"].get(k):
                raise tla.MachineryError(f"judge antecedent {k} never true: check would be vacuous")
        rep.assumptions += ["pre-states of the exhaustive table are built by the KeyedList constructor (item-by-item insert)",
                            "keys()/items() are compared as sets (dict views), list order only for the list itself",
                            "when several failure causes apply to one call any of their exception classes is accepted"]
        return rep.finish(rule="every distinct reachable list content of the TLC model x every action of the exported action universe, "
                               "per item flavour (self-keyed, key function, keyed spec class, int keys) typed and untyped, plus seeded random "
                               "histories; non-trivial = the call changed the container or raised; distinct by (config, flavour, pre-state, action)")
    finally:
        shutil.rmtree(tmp, ignore_errors=True)
