"""C04 -- an operation that raises leaves every pre-existing object unchanged."""
from . import _sc


def main(tier):
    return _sc.run("C04", tier, ["c04_"], names=_sc.ALL + ["inv_chain", "inv_attr", "frozen_list", "frozen_dnc", "frozen_child", "frozen_kids"], quick_pairs=9000)
