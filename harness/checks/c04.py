"""C04 -- an operation that raises leaves every pre-existing object unchanged."""
from . import _sc


def main(tier):
    return _sc.run("C04", tier, ["c04_"], quick_pairs=10000)
