"""C02 -- derived copies share no mutable state with the original (do_not_copy excepted)."""
from . import _sc


def main(tier):
    return _sc.run("C02", tier, ["c02_"], act_filter=_sc.is_cow, quick_pairs=10000)
