"""spec_property on frozen spec classes (shared by C07 and C12): MC of SpecPropertyFrozen.tla, every access path on real frozen hosts, TLC-judged."""
import json
import shutil

from .. import canary, common, pipeline, tla
from .. import d_specproperty as D

CFG = """SPECIFICATION Spec
CONSTANTS Dev = {%s}
VIEW View
PROPERTY PropFrozen
PROPERTY PropPriority
PROPERTY PropOverrideKept
CHECK_DEADLOCK FALSE
"""


def run(rep, tier, clause_prefix=""):
    thorough = tier == "thorough"
    tmp = tla.scratch("spf-")
    try:
        r = pipeline.mc_run(rep, "SpecPropertyFrozen", pipeline.write_cfg(tmp, "f.cfg", CFG % ""), label="spec_property on frozen hosts", workers=4)
        pipeline.deviation_runs(rep, "SpecPropertyFrozen", lambda d: CFG % ('"' + d + '"'), ["frozen_delete_unguarded"])
        cfgs = [json.loads(c) for c in sorted({common.canon(s["cfg"]) for s in r["states"]})]
        acts = sorted(r["acts"], key=common.canon)
        L = 4 if thorough else 3
        jobs = [([c], acts, L, 100 if thorough else 30, 8, common.seed() + i) for i, c in enumerate(cfgs)]
        events = [e for o in pipeline.pmap(D.run_sp_frozen, jobs) for e in o]
        res = tla.judge("J_SpecProperty", events, chunk=6000, jobs=common.jobs())
        pipeline.canaries(rep, "J_SpecProperty", events[::max(1, len(events) // 40)], canary.steps_family, env=None, want=12, label="J_SpecProperty (frozen hosts)")
        for gi, clause, detail in res["bad"]:
            e = events[gi]
            rep.violation(clause_prefix + clause, {"family": "sp", "cfg": e["cfg"], "path": [s["a"] for s in e["steps"]],
                                                   "observed": [[s["res"], s["val"], s["st"]] for s in e["steps"]], "failing_step": detail},
                          f"kind=sp cfg={json.dumps(e['cfg'], sort_keys=True)}")
        if not any(s["res"] == "FrozenInstanceError" for e in events for s in e["steps"]):
            raise tla.MachineryError("no FrozenInstanceError observed on frozen hosts: the phase would be vacuous")
        rep.coverage["frozen_property_hosts"] = {"configurations": len(cfgs), "paths": len(events), "path_len": L}
        return len(events), len({common.canon([e["cfg"], [s["a"] for s in e["steps"]]]) for e in events})
    finally:
        shutil.rmtree(tmp, ignore_errors=True)
