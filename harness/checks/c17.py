"""C17 -- every generated method accepts exactly what its advertised signature says."""
import json
import os
import shutil

from .. import canary, common, pipeline, tla
from .. import d_signature as D

CFG = "SPECIFICATION Spec\nINVARIANT InvBindsAgree\nCHECK_DEADLOCK FALSE\n"


def main(tier):
    rep = common.Report("C17", tier)
    tmp = tla.scratch("c17-")
    try:
        pipeline.mc_run(rep, "Signature", pipeline.write_cfg(tmp, "s.cfg", CFG), label="binding rule over all small signatures x calls", dump=False, acts=False, workers=8)
        rep.mark("mc")
        events = D.run_all(None) + D.run_deliver(None)
        rep.mark("drive")
        scnp = os.path.join(tmp, "st.json")
        with open(scnp, "w") as f:
            json.dump(D.ST, f)
        res = tla.judge("J_Signature", events, chunk=4000, jobs=common.jobs(), env={"VERIF_SCN": scnp})
        pipeline.canaries(rep, "J_Signature", events[::max(1, len(events) // 40)], canary.signature, env={"VERIF_SCN": scnp}, want=16)
        rep.mark("judge")
        for gi, clause, _ in res["bad"]:
            e = events[gi]
            rep.violation(clause, {"family": "signature", "method": e["method"], "m": e["m"], "sig": e["sig"], "call": e.get("call"), "res": e.get("res")},
                          f"class={e['m']['cls']} method={e['method']} call={e.get('call')} res={e.get('res')}")
        distinct = len({common.canon([e["m"], e["method"], e.get("call")]) for e in events})
        rep.add_events(len(events), distinct, [events[0], events[3], events[-1]])
        rep.coverage.update({"methods": sum(1 for e in events if e["kind"] == "sig"), "calls": sum(1 for e in events if e["kind"] == "call"),
                             "judge_antecedents": res["ante"], "exhaustive": True})
        for k in ("sigs", "accepted", "rejected", "nested", "delivered", "overflowed"):
            if not res["ante"].get(k):
                raise tla.MachineryError(f"judge antecedent {k} never true")
        rep.assumptions += ["the advertised signature is what inspect.signature reports", "advertised defaults of nested-attribute keywords are documentation only (they are not passed on when omitted): "
                            "only real parameters are checked for their defaults", "a spy replaces the implementation bound in the generated wrapper's globals (acceptance phase); the delivery phase runs the real implementation and looks for the value in the nested object"]
        return rep.finish(rule="every generated method (constructor, 3 top-level, 4 scalar and 4 element helpers per attribute) of four classes (nested spec, list/dict/KeyedList of spec, "
                               "overflow class, init=False and private attributes): minimal call, each advertised parameter, each pair, too many positionals, and unadvertised names")
    finally:
        shutil.rmtree(tmp, ignore_errors=True)
