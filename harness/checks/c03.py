"""C03 -- managed attributes always satisfy their declared type on every mutation route."""
from . import _sc


def main(tier):
    return _sc.run("C03", tier, ["c03_"], quick_pairs=10000)
