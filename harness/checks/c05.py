"""C05 -- scalar and top-level helpers compute exactly the documented new state."""
from . import _sc


def main(tier):
    # the invalidation scenarios are part of "the documented new state" (attributes declared invalidated_by go back to their default)
    return _sc.run("C05", tier, ["c05_"], names=_sc.ALL + ["inv_chain", "inv_attr"], act_filter=lambda a: a["op"] not in _sc.ELEM, quick_pairs=12000)
