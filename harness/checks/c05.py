"""C05 -- scalar and top-level helpers compute exactly the documented new state."""
from . import _sc


def main(tier):
    return _sc.run("C05", tier, ["c05_"], act_filter=lambda a: a["op"] not in _sc.ELEM, quick_pairs=14000)
