"""C11 -- derived values are never stale after a dependency changes."""
from . import _sc

NAMES = ["inv_chain", "inv_attr", "inv_nocache", "inv_list", "inv_sub", "frozen_inv", "inv_post_init", "inv_two_wild", "inv_mixin", "inv_plain_between", "inherit_dnc"]


def main(tier):
    # dependency graphs: attribute -> cached property -> cached property, '*' wildcard, managed attribute invalidated_by,
    # chain through a non-caching property, collection dependency (element helpers), dependants added by a subclass,
    # a frozen class (invalidation on the thawed copy), caches filled and a dependency assigned during __post_init__.
    return _sc.run("C11", tier, ["c11_", "c05_", "c06_", "c04_"], names=NAMES, quick_pairs=30000, thorough_pairs=150000, gen_only=lambda g: False,
                   need=("cow", "raised", "specified", "changed", "inplace"),
                   assumptions=["each getter reads exactly its declared dependencies; overrides are tracked by the model (ghost) because the instance dict does not distinguish them from caches",
                                "states with filled caches / overrides are reached by constructor + overrides + reads; states that history does not reproduce are skipped (none in the current scenarios)"])
