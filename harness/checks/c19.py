"""C19 -- lazy bootstrapping equals eager bootstrapping under every thread interleaving."""
import shutil

from .. import canary, common, pipeline, tla
from .. import d_bootstrap as D

IMPL_CFG = """SPECIFICATION Spec
CONSTANTS
 Threads = {%s}
 Design = "%s"
INVARIANT InvEquivalent
INVARIANT InvSingle
"""

COMBOS = {
    "attr_decls": [["inst", "inst"], ["inst", "meta"], ["fields", "inst"]],
    "field_decls": [["inst", "inst"], ["meta", "fields"]],
    "lazy_parent": [["inst", "inst"], ["inst", "meta"]],
    "own_new": [["inst", "inst"], ["fields", "inst"]],
    "lazy_parent_split": [["inst", "pinst"], ["meta", "pmeta"], ["pinst", "fields"]],
    "mixin_new": [["sub", "sub"], ["sub", "inst"]],
    "sub_new_forwards": [["inst", "inst"], ["inst", "meta"]],
    "decorator_typed_parent": [["inst", "pinst"], ["meta", "pmeta"], ["fields", "inst"]],
    "plain_subclass": [["sub", "inst"], ["sub", "sub"], ["meta", "sub"]],
    "keyed_nested": [["inst", "inst"], ["inst", "fields"]],
}
COMBOS3 = {"attr_decls": [["inst", "meta", "inst"]], "lazy_parent": [["inst", "inst", "fields"]], "plain_subclass": [["sub", "inst", "meta"]]}


def thr(n):
    return ", ".join(f'"t{i}"' for i in range(n))


def main(tier):
    rep = common.Report("C19", tier)
    thorough = tier == "thorough"
    tmp = tla.scratch("c19-")
    try:
        for n in (2, 3):
            pipeline.mc_run(rep, "BootstrapImpl", pipeline.write_cfg(tmp, f"ok{n}.cfg", IMPL_CFG % (thr(n), "publish_last")),
                            label=f"implementation model, design publish_last, {n} threads", dump=False, acts=False, workers=4)
        dev = {}
        for d in ("as_is", "lock_bootstrap"):
            out, _ = tla.run_tlc("BootstrapImpl", pipeline.write_cfg(tmp, f"{d}.cfg", IMPL_CFG % (thr(2), d)), workers=2)
            v = tla.mc_violation(out)
            if not v:
                raise tla.MachineryError(f"design {d} does not violate the bootstrap invariants: vacuous")
            dev[d] = v
        rep.coverage["deviation_counterexamples"] = dev
        rep.mark("mc")
        nsh = 4
        jobs = []
        for name, combos in COMBOS.items():
            for ci, trig in enumerate(combos):
                for sh in range(nsh):
                    if thorough:
                        # every <=1-preemption schedule at ANY library line; <=2 preemptions (second at shared-state lines, thinned)
                        jobs.append((name, trig, "any", 2 if ci == 0 else 1, 60, common.seed(), sh, nsh, 40))
                    else:
                        jobs.append((name, trig, "shared", 1, 8, common.seed(), sh, nsh * 6 if ci else nsh * 3, 1))
        for name, combos in COMBOS3.items():
            for trig in combos:
                for sh in range(nsh):
                    jobs.append((name, trig, "shared", 1, 40 if thorough else 6, common.seed(), sh, nsh if thorough else nsh * 8, 1))
        events = [e for o in pipeline.pmap(D.run_schedules, jobs) for e in o]
        rep.mark("schedules")
        res = tla.judge("J_Bootstrap", events, chunk=1500, jobs=common.jobs())
        pipeline.canaries(rep, "J_Bootstrap", events[::max(1, len(events) // 40)], canary.bootstrap, env=None, want=16)
        rep.mark("judge")
        for gi, clause, detail in res["bad"]:
            e = events[gi]
            rep.violation(clause, {"family": "bootstrap", "scenario": e["scenario"], "triggers": e["triggers"], "schedule": e["schedule"],
                                   "threads": e["threads"], "eager": e["eager"], "final": e["final"], "event_index": detail, "hang": e.get("hang", "")},
                          f"scenario={e['scenario']} triggers={'/'.join(e['triggers'])}")
        distinct = len({common.canon([e["scenario"], e["triggers"], e["schedule"]]) for e in events})
        rep.add_events(len(events), distinct, [{k: v for k, v in events[0].items() if k not in ("schedule",)} | {"schedule_len": len(events[0]["schedule"])}])
        rep.coverage.update({"scheduled_executions": len(events), "judge_antecedents": res["ante"],
                             "schedule_bounds": ("thorough: every <=1-preemption schedule at any executed library line for each (scenario, trigger combination); <=2 preemptions "
                                                 "(thinned) for the first combination; 3-thread cases; random switching" if thorough else
                                                 "quick: a deterministic third/sixth of the <=1-preemption schedules at shared-state lines per (scenario, trigger combination) + random")})
        for k in ("executions", "with_changes", "consumed_decl"):
            if not res["ante"].get(k):
                raise tla.MachineryError(f"judge antecedent {k} never true")
        rep.assumptions += ["line-granularity scheduling under the GIL; library RLocks replaced by scheduler-aware locks (harness-side)",
                            "the canonical class description covers metadata flags, every Attr field, helper names with signatures, class-level defaults, dataclass fields, and repr of a default-constructed instance",
                            "publication of a class = the last change to its bootstrap-relevant class state (declarations, metadata slot, registered helper names)"]
        return rep.finish(rule="real threads performing a first use (instantiate / metadata / dataclass-fields / through a subclass) of a freshly built lazy class under a "
                               "deterministic scheduler; one execution per schedule; distinct by (scenario, triggers, schedule)")
    finally:
        shutil.rmtree(tmp, ignore_errors=True)
