"""C01 -- copy-on-write helpers never change the instance they are called on."""
from . import _sc


def main(tier):
    return _sc.run("C01", tier, ["c01_"], act_filter=_sc.is_cow, quick_pairs=10000)
