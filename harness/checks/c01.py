"""C01 -- copy-on-write helpers never change the instance they are called on."""
from . import _sc


def main(tier):
    # + crash points: sampled copy-on-write calls aborted by an exception injected at their executed library lines
    return _sc.run("C01", tier, ["c01_"], act_filter=_sc.is_cow, quick_pairs=9000, fault_pairs=(6, 40), fault_stride=(9, 1),
                   assumptions=["an injected fault is a Python exception raised at a line boundary of library code (sys.settrace); one-time lazy initialisation is warmed up first"])
