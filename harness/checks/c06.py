"""C06 -- element helpers edit list/dict/set attributes like the plain container operation."""
from . import _sc


def main(tier):
    return _sc.run("C06", tier, ["c06_"], names=[n for n in _sc.ALL if n not in ("scalars", "nested")],
                   act_filter=lambda a: a["op"] in _sc.ELEM, quick_pairs=16000, need=("cow", "raised", "specified", "changed", "element"))
