"""C15 -- the run-time type check accepts a value exactly when it conforms structurally."""
import shutil

from .. import canary, common, pipeline, tla
from .. import d_pytypes as D

CFG = """SPECIFICATION Spec
CONSTANTS Depth2 = %s
INVARIANT LawAny
INVARIANT LawOptional
INVARIANT LawListLift
INVARIANT LawTuple
INVARIANT LawDict
INVARIANT LawTower
INVARIANT LawUnionMono
CHECK_DEADLOCK FALSE
"""


def main(tier):
    rep = common.Report("C15", tier)
    thorough = tier == "thorough"
    tmp = tla.scratch("c15-")
    try:
        r = pipeline.mc_run(rep, "PyTypesMC", pipeline.write_cfg(tmp, "p.cfg", CFG % ("TRUE" if thorough else "FALSE")),
                            label="annotation x value pairs", dump=False, workers=16)
        rep.mark("mc")
        uni = r["acts"]
        types = sorted(uni["types"], key=common.canon)
        types2 = sorted(uni["types2"], key=common.canon)
        pool = sorted(uni["pool"], key=common.canon)
        if not thorough:
            types2 = types2[common.seed() % 3::3]
        allt = types + types2
        jobs = [(ch, pool, i) for i, ch in enumerate(common.chunks(allt, 32))]
        events = []
        for o in pipeline.pmap(D.run_pairs, jobs):
            events += o
        n_enum = len(events)
        atoms = [t for t in types if t["k"] in ("any", "base", "user", "literal", "bounded", "validated")]
        scalars = [v for v in pool if v["t"] in ("int", "bool", "float", "str", "bytes", "none", "obj", "cls")]
        nrand = 20000 if thorough else 2500
        for o in pipeline.pmap(D.run_random, [(atoms, scalars, nrand, common.seed() * 100 + w) for w in range(16)]):
            events += o
        rep.mark("drive")
        res = tla.judge("J_PyTypes", events, chunk=30000, jobs=common.jobs())
        pipeline.canaries(rep, "J_PyTypes", events[::max(1, len(events) // 40)], canary.pytypes, env=None, want=16)
        rep.mark("judge")
        for gi, clause, _ in res["bad"]:
            e = events[gi]
            rep.violation(clause, {"family": "check_type", "T": e["T"], "v": e["v"], "style": e["style"], "res": e["res"]},
                          f"kind={e['T']['k']} value={e['v']['t']} res={e['res']}")
        distinct = len({common.canon([e["T"], e["v"]]) for e in events})
        rep.add_events(len(events), distinct, [events[100], events[n_enum + 5], events[-1]])
        rep.coverage.update({"enumerated_pairs": n_enum, "random_depth3_pairs": len(events) - n_enum, "annotations": len(allt), "pool_values": len(pool),
                             "judge_antecedents": res["ante"], "exhaustive": True})
        if not res["ante"].get("accepted") or not res["ante"].get("rejected"):
            raise tla.MachineryError("judge saw no accepted or no rejected pairs")
        rep.assumptions += ["Literal membership is Python equality (1 == True == 1.0), as the property's 'equality with a Literal choice' says",
                            "annotation spellings (typing generics, PEP 585 builtins, PEP 604 unions, Optional) are rendered alternately and must not matter"]
        return rep.finish(rule="every annotation term of depth <= 1 (plus a depth-2 layer) of the TLC enumerator x every value of its pool, plus random "
                               "depth-3 terms with values built to conform and broken at one structural position; distinct by (annotation, value)")
    finally:
        shutil.rmtree(tmp, ignore_errors=True)
