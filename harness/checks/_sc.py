"""Common body of the spec-class core checks (C01-C06): same pipeline, each keeps its own clauses."""
from .. import common, specclass_run as R, tla

ALL = ["scalars", "list_int", "set_str", "set_int", "dict_int", "nested", "nested_prep", "prepared", "prep_nonidem", "list_spec", "klist", "kset", "dict_spec"]
ELEM = {"with_item", "update_item", "transform_item", "without_item"}


def is_cow(a):
    return a["op"] not in ("setattr", "delattr") and not a.get("inplace", False)


def run(prop, tier, prefixes, *, names=ALL, act_filter=None, quick_pairs=12000, thorough_pairs=None, need=("cow", "raised", "specified", "changed"),
        rule="", assumptions=(), fault_pairs=(0, 0), fault_stride=(1, 1)):
    rep = common.Report(prop, tier)
    result = R.collect(rep, names, tier, act_filter=act_filter, max_pairs=quick_pairs if tier != "thorough" else thorough_pairs, seed=common.seed(),
                       fault_pairs=fault_pairs[tier == "thorough"], fault_stride=fault_stride[tier == "thorough"])
    R.report_clauses(rep, result, prefixes)
    res = {"ante": result["ante"]}
    rep.add_events(result["n"], result["distinct"], [{k: e[k] for k in ("scn", "a", "pre", "recv_post", "res", "result", "same")} for e in result["samples"][:3]])
    rep.coverage.update({"scenarios": list(names), "judge_antecedents": res["ante"], "clauses_kept": list(prefixes),
                         "exhaustive": tier == "thorough" and thorough_pairs is None})
    for k in need:
        if not res["ante"].get(k):
            raise tla.MachineryError(f"judge antecedent {k} never true: the check would be vacuous")
    rep.assumptions += ["receivers are built by the real constructor from the model state (a real history); the pre-state judged is the projection of that real receiver (with the non-idempotent preparer of prep_nonidem the constructor maps model state s to prep(s), which again ranges over every state)",
                        "when several failure causes apply to a call any of their exception classes is accepted; call forms the documentation does not define are "
                        "'unspecified' in the model (only the invariant clauses apply to them)"] + list(assumptions)
    return rep.finish(rule=rule or "every distinct reachable instance state of the TLC model of each scenario x the exported action universe (every helper, flag and argument "
                                   "combination of the scenario's pools; quick tier thins actions per state with a rotating stride); non-trivial = raised, changed the receiver "
                                   "or returned a new object; distinct by (scenario, pre-state, action)")
