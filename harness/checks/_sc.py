"""Common body of the spec-class core checks (C01-C06): same pipeline, each keeps its own clauses."""
from .. import common, specclass_run as R, tla

ALL = ["scalars", "list_int", "list_int3", "bounded_attr", "nested_overflow", "set_str", "set_int", "dict_int", "nested", "nested_prep", "nested_prep_boom", "prepared", "prep_nonidem", "list_spec", "klist", "kset", "dict_spec",
       "dnc_attr", "dnc_attr_decl", "dnc_class", "dflt_kinds", "dflt_kinds2", "inherit_spec", "inherit_plain", "inherit_plain_mut", "inherit_dnc", "inherit_dnc_items", "spec_plain_spec", "bad_default", "attrs_arg", "sibling_redeclare", "dnc_iprep", "dnc_plain_redefault", "eager"]
ELEM = {"with_item", "update_item", "transform_item", "without_item"}


def generated(tier, only=lambda g: True, quick_n=4):
    """Scenarios of the fixed generated corpus (harness/gen_scenarios.json): all of them in the thorough tier, a subset rotating with
    the seed in the quick tier (every member of the corpus holds on the unchanged tree whatever the seed)."""
    from .. import scenarios as S
    names = [n for n in S.GENERATED if only(S.SCENARIOS[n]["generated"])]
    if tier == "thorough" or len(names) <= quick_n:
        return names
    k = (common.seed() * quick_n) % len(names)
    return [names[(k + i) % len(names)] for i in range(quick_n)]


def is_cow(a):
    return a["op"] not in ("setattr", "delattr") and not a.get("inplace", False)


def run(prop, tier, prefixes, *, names=ALL, act_filter=None, quick_pairs=12000, thorough_pairs=None, need=("cow", "raised", "specified", "changed"),
        rule="", assumptions=(), fault_pairs=(0, 0), fault_stride=(1, 1), histories=((1, 25), (16, 40)), gen_only=lambda g: True, extra=None):
    rep = common.Report(prop, tier)
    names = list(names) + [n for n in generated(tier, gen_only) if n not in names]
    result = R.collect(rep, names, tier, act_filter=act_filter, max_pairs=quick_pairs if tier != "thorough" else thorough_pairs, seed=common.seed(),
                       fault_pairs=fault_pairs[tier == "thorough"], fault_stride=fault_stride[tier == "thorough"],
                       histories=histories[tier == "thorough"])
    R.report_clauses(rep, result, prefixes)
    if extra is not None:          # a further phase of the same check (own model, driver and judge), reporting into the same Report
        n_extra, d_extra = extra(rep, tier)
        result["n"] += n_extra
        result["distinct"] += d_extra
    res = {"ante": result["ante"]}
    rep.add_events(result["n"], result["distinct"], [{k: e[k] for k in ("scn", "a", "pre", "recv_post", "res", "result", "same")} for e in result["samples"][:3]])
    rep.coverage.update({"scenarios": list(names), "judge_antecedents": res["ante"], "clauses_kept": list(prefixes),
                         "exhaustive": tier == "thorough" and thorough_pairs is None})
    for k in need:
        if not res["ante"].get(k):
            raise tla.MachineryError(f"judge antecedent {k} never true: the check would be vacuous")
    rep.assumptions += ["receivers are built by the real constructor from the model state (a real history); the pre-state judged is the projection of that real receiver (with the non-idempotent preparer of prep_nonidem the constructor maps model state s to prep(s), which again ranges over every state)",
                        "when several failure causes apply to a call any of their exception classes is accepted; call forms the documentation does not define are "
                        "'unspecified' in the model (only the invariant clauses apply to them)"] + list(assumptions)
    return rep.finish(rule=rule or "every distinct reachable instance state of the TLC model of each scenario x the exported action universe (every helper, flag and argument "
                                   "combination of the scenario's pools; quick tier thins actions per state with a rotating stride); non-trivial = raised, changed the receiver "
                                   "or returned a new object; distinct by (scenario, pre-state, action); plus seeded multi-step histories on persistent objects (a copy-on-write "
                                   "result usually becomes the next receiver), every step judged by the same clauses")
