"""C09 -- the generated constructor assigns exactly what the class hierarchy specifies."""
import json
import os
import shutil

from .. import canary, common, pipeline, tla
from .. import d_construct as D


def main(tier):
    rep = common.Report("C09", tier)
    tmp = tla.scratch("c09-")
    try:
        hs, targets = {}, {}
        for name, (classes, tg) in D.HIER.items():
            hs[name] = D.table(name, D.build(name))
            targets[name] = tg
        with open(os.path.join(tmp, "MC_Construction.tla"), "w") as f:
            f.write(f"---- MODULE MC_Construction ----\nEXTENDS Construction\nhs == {tla.to_tla(hs)}\ntargets == {tla.to_tla(targets)}\n====\n")
        cfg = lambda dev: ("SPECIFICATION Spec\nCONSTANTS\n HS <- hs\n Targets <- targets\n Dev = {%s}\nINVARIANT InvAgree\nINVARIANT InvPost\nCHECK_DEADLOCK FALSE\n" % dev)
        r = pipeline.mc_run(rep, "MC_Construction", pipeline.write_cfg(tmp, "c.cfg", cfg("")), label="hierarchies x keyword sets", dump=False, workers=8,
                            cwd=tmp, library=tla.SPEC)
        out, _ = tla.run_tlc("MC_Construction", pipeline.write_cfg(tmp, "d.cfg", cfg('"plain_between_reinitialises"')), workers=4, cwd=tmp, library=tla.SPEC)
        if not tla.mc_violation(out):
            raise tla.MachineryError("deviation plain_between_reinitialises does not violate InvAgree")
        rep.coverage["deviation_counterexamples"] = {"plain_between_reinitialises": tla.mc_violation(out)}
        rep.mark("mc")
        cases = r["acts"]
        by = {}
        for c in cases:
            by.setdefault(c["h"], []).append(c)
        events = [e for o in pipeline.pmap(D.run_cases, sorted(by.items())) for e in o]
        rep.mark("drive")
        scnp = os.path.join(tmp, "hs.json")
        with open(scnp, "w") as f:
            json.dump(hs, f)
        res = tla.judge("J_Construction", events, chunk=4000, jobs=common.jobs(), env={"VERIF_SCN": scnp})
        pipeline.canaries(rep, "J_Construction", events[::max(1, len(events) // 40)], canary.construct, env={"VERIF_SCN": scnp}, want=16)
        rep.mark("judge")
        for gi, clause, detail in res["bad"]:
            e = events[gi]
            rep.violation(clause, {"family": "construct", "h": e["h"], "c": e["c"], "kws": e["kws"], "positional_key": e["positional_key"], "res": e["res"],
                                   "attrs": e["attrs"], "posts": e["posts"], "expected": detail},
                          f"hier={e['h']} class={e['c']} res={e['res']}")
        distinct = len({common.canon([e["h"], e["c"], e["kws"], e["positional_key"]]) for e in events})
        rep.add_events(len(events), distinct, [events[0], events[len(events) // 2]])
        rep.coverage.update({"hierarchies": sorted(D.HIER), "judge_antecedents": res["ante"], "exhaustive": True})
        for k in ("ok", "rejected", "posts", "positional"):
            if not res["ante"].get(k):
                raise tla.MachineryError(f"judge antecedent {k} never true")
        rep.assumptions += ["Python's MRO is taken from the real classes (input constant)", "hand-written constructors have the documented shape self.<p> = <p> + 1",
                            "attribute values are read with getattr (an init=False attribute shows its class-level default)"]
        return rep.finish(rule="every instantiable class of 13 hierarchies (spec/plain subclasses, two spec parents, re-declared and re-defaulted attributes, hand-written parent "
                               "constructors, init=False, key with/without default (keyword and positional), overflow, __post_init__, spec-plain-spec) x every keyword set of the "
                               "model (absent / conforming / ill-typed per attribute, pairs, unknown names); distinct by (hierarchy, class, keywords)")
    finally:
        shutil.rmtree(tmp, ignore_errors=True)
