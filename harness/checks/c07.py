"""C07 -- frozen instances are immutable yet still evolvable by copy."""
from . import _sc, _spfrozen


def main(tier):
    # frozen classes (declared, inherited by a plain subclass, inherited by a decorated subclass) and a frozen child inside a non-frozen parent; "behave exactly as the non-frozen twin" is the
    # c05/c06 conformance with the same Step (which ignores the flag for copy-on-write calls)
    return _sc.run("C07", tier, ["c07_", "c05_", "c06_", "c04_"], names=["frozen_nested", "frozen_list", "frozen_child", "frozen_kids", "frozen_plain_sub", "frozen_spec_sub", "frozen_inv", "frozen_post_copy", "frozen_dnc", "frozen_post_copy_hook"],
                   quick_pairs=20000, gen_only=lambda g: g["frozen"], extra=lambda rep, tier: _spfrozen.run(rep, tier, "c07_property_"), need=("cow", "raised", "specified", "changed", "inplace"),
                   assumptions=["a nested frozen instance cannot be changed through the API and is treated as an immutable leaf when identity tokens are collected"])
