"""C20 -- copying leaves process-global state untouched and is safe across threads."""
import random
import shutil

from .. import canary, common, pipeline, tla
from .. import d_copyguard as D

PROTO_CFG = """SPECIFICATION Spec
CONSTANTS
 Threads = {%s}
 Table0 = "%s"
 MaxDepth = %d
INVARIANT InvQuiescent
INVARIANT InvSafe
INVARIANT InvForeign
INVARIANT InvNested
CHECK_DEADLOCK FALSE
"""
IMPL_CFG = """SPECIFICATION Spec
CONSTANTS
 Threads = {%s}
 Table0 = "%s"
 Depth = %d
 ReInit = %s
 RacyNew = %s
 defaultInitValue = 0
INVARIANT InvQuiescent
INVARIANT InvSafe
INVARIANT InvForeign
"""


def thr(n):
    return ", ".join(f'"t{i}"' for i in range(n))


def main(tier):
    rep = common.Report("C20", tier)
    thorough = tier == "thorough"
    tmp = tla.scratch("c20-")
    try:
        # protocol-level spec and implementation-shaped PlusCal model (fixed design must satisfy the protocol invariants)
        for t0 in ("absent", "foreign"):
            pipeline.mc_run(rep, "CopyGuard", pipeline.write_cfg(tmp, f"p{t0}.cfg", PROTO_CFG % (thr(3 if thorough else 2), t0, 3 if thorough else 2)),
                            label=f"protocol table0={t0}", dump=False, acts=False, workers=4)
            pipeline.mc_run(rep, "CopyGuardImpl", pipeline.write_cfg(tmp, f"i{t0}.cfg", IMPL_CFG % (thr(3 if thorough else 2), t0, 2, "FALSE", "FALSE")),
                            label=f"implementation model (fixed design) table0={t0}", dump=False, acts=False, workers=8, timeout=1200)
        # anti-vacuity: the pre-fix designs violate the invariants
        dev = {}
        for name, (ri, rn, nt) in {"reinit_on_every_call": ("TRUE", "FALSE", 1), "racy_singleton_creation": ("FALSE", "TRUE", 2)}.items():
            out, _ = tla.run_tlc("CopyGuardImpl", pipeline.write_cfg(tmp, f"d{name}.cfg", IMPL_CFG % (thr(nt), "absent", 2, ri, rn)), workers=4)
            v = tla.mc_violation(out)
            if not v:
                raise tla.MachineryError(f"design variant {name} does not violate the guard invariants")
            dev[name] = v
        rep.coverage["deviation_counterexamples"] = dev
        rep.mark("mc")

        rnd = random.Random(common.seed())
        names = sorted(D.op_pool(rnd))
        jobs = []
        nh = 600 if thorough else 120
        for h in range(nh):
            k = rnd.randint(1, 6)
            jobs.append((rnd.choice(["absent", "absent", "foreign"]), [rnd.choice(names) for _ in range(k)], common.seed() + h))
        hist = pipeline.pmap(D.run_history, jobs)
        rep.mark("histories")
        fjobs = []
        stride = 1 if thorough else 7
        for n in names:
            for t0 in (("absent", "foreign") if thorough else ("absent",)):
                fjobs.append((t0, n, common.seed(), stride))
        faults = [e for o in pipeline.pmap(D.run_faults, fjobs) for e in o]
        rep.mark("faults")
        sjobs = []
        nsh = 8
        for first_use in (False, True):
            for t0 in ("absent", "foreign"):
                for nt in ((2, 3) if thorough else (2,)):
                    mp = 2 if (thorough and nt == 2) or (not thorough and not first_use and t0 == "absent") else 1
                    for sh in range(nsh):
                        sjobs.append((t0, nt, first_use, mp, 150 if thorough else 12, common.seed(), sh, nsh, 1 if thorough else 5))
        threads = [e for o in pipeline.pmap(D.run_schedules, sjobs) for e in o]
        rep.mark("schedules")
        events = hist + threads + faults
        res = tla.judge("J_CopyGuard", events, chunk=4000, jobs=common.jobs())
        pipeline.canaries(rep, "J_CopyGuard", events[::max(1, len(events) // 40)], canary.copyguard, env=None, want=16)
        rep.mark("judge")
        for gi, clause, _ in res["bad"]:
            e = events[gi]
            if e["kind"] == "fault":
                replay = {"family": "fault", "table0": e["table0"], "op": e["op"], "line_no": e["line_no"], "loc": e["loc"], "abort_in": e["loc"][1], "abort_stmt": e["loc"][3],
                          "final_table": e["final_table"]}
                detail = f"op={e['op']} abort_in={e['loc'][0]}:{e['loc'][1]}"
            elif e["kind"] == "seq":
                replay = {"family": "seq", "table0": e["table0"], "ops": e["ops"], "outcomes": e["outcomes"], "final_table": e["final_table"]}
                detail = f"sequential table0={e['table0']}"
            else:
                replay = {"family": "threads", "table0": e["table0"], "n": e["n"], "first_use": e["first_use"], "schedule": e["schedule"],
                          "outcomes": e["outcomes"], "final_table": e["final_table"]}
                detail = f"threads={e['n']} first_use={e['first_use']} table0={e['table0']}"
            rep.violation(clause, replay, detail)
        distinct = len({common.canon([e.get("ops"), e.get("schedule"), e.get("op"), e.get("line_no"), e["table0"], e.get("n"), e.get("first_use")]) for e in events})
        rep.add_events(len(events), distinct, [{k: v for k, v in hist[0].items() if k != "states"} | {"states_head": hist[0]["states"][:6]},
                                                {k: v for k, v in threads[-1].items() if k != "states"}, faults[len(faults) // 2]])
        rep.coverage.update({"sequential_histories": len(hist), "scheduled_thread_executions": len(threads), "aborted_executions": len(faults),
                             "judge_antecedents": res["ante"], "fault_line_stride": stride,
                             "schedule_bounds": "all <=1-preemption schedules at guard lines for every (table0, first-use) pair; <=2 preemptions for the 2-thread "
                                                "cases named in the check; plus random-switch schedules"})
        for k in ("traces", "faults", "installs", "nested"):
            if not res["ante"].get(k):
                raise tla.MachineryError(f"judge antecedent {k} never true")
        rep.assumptions += ["threads are scheduled at line granularity under CPython's GIL; the library's RLocks are replaced by scheduler-aware locks",
                            "protocol events are derived from call/return of protect_via_deepcopy and of copy.deepcopy called from it (no repository hook)",
                            "an injected fault is a Python exception raised at a line boundary"]
        return rep.finish(rule="random histories of copying operations (table snapshotted at every library line), every operation aborted at executed library lines "
                               "(stride in coverage.fault_line_stride), and enumerated/random thread schedules; each recorded execution is one trace; distinct by "
                               "(history | schedule | abort point)")
    finally:
        shutil.rmtree(tmp, ignore_errors=True)
