"""Reusable steps of a check: MC (+dump, +action export), deviation sensitivity, parallel drive, judge."""
import json
import multiprocessing as mp
import os
import shutil

from . import common, tla


def write_cfg(tmp, name, text):
    p = os.path.join(tmp, name)
    with open(p, "w") as f:
        f.write(text)
    return p


def mc_run(report, module, cfg_path, *, label, dump=True, acts=True, workers=8, timeout=1500, env=None, coverage=False,
           must_hold=True, heap="4g", cwd=None, library=None):
    """Model-check; returns dict(states=[...], acts=[...], out=text).  A violated property of the
    *specification* on the unchanged design is a machinery error (the design is the reference)."""
    tmp = tla.scratch("mc-")
    try:
        args = []
        e = dict(env or {})
        if dump:
            args += ["-dump", os.path.join(tmp, "states")]
        if acts:
            e["VERIF_ACTS"] = os.path.join(tmp, "acts.json")
        if coverage:
            args += ["-coverage", "1"]
        out, wall = tla.run_tlc(module, cfg_path, workers=workers, args=args, env=e, timeout=timeout, heap=heap,
                                **({"cwd": cwd, "library": library} if cwd else {}))
        if must_hold and not tla.mc_ok(out):
            raise tla.MachineryError(f"specification {module} ({label}) violates its own properties "
                                     f"[{tla.mc_violation(out)}]:\n{out[-3000:]}")
        stats = tla.mc_stats(out)
        report.add_mc(label, stats, wall)
        res = {"out": out, "stats": stats}
        if dump:
            res["states"] = [tla.unset(s) for s in tla.parse_dump(os.path.join(tmp, "states.dump"))]
            if len(res["states"]) != stats["distinct"]:
                raise tla.MachineryError(f"dump has {len(res['states'])} states, TLC reported {stats['distinct']}")
        if acts:
            res["acts"] = json.load(open(e["VERIF_ACTS"]))
        if coverage:
            res["coverage"] = tla.coverage_actions(out)
        return res
    finally:
        shutil.rmtree(tmp, ignore_errors=True)


def deviation_runs(report, module, cfg_text_for, devs, *, workers=2, timeout=600):
    """Anti-vacuity: with each named deviation switched on, TLC must report a violation.
    cfg_text_for(dev) -> cfg text.  Records {dev: violated property}."""
    from concurrent.futures import ThreadPoolExecutor
    tmp = tla.scratch("dev-")
    try:
        def one(d):
            p = write_cfg(tmp, f"dev_{d}.cfg", cfg_text_for(d))
            out, _ = tla.run_tlc(module, p, workers=workers, timeout=timeout)
            return d, tla.mc_violation(out)
        with ThreadPoolExecutor(max_workers=4) as ex:
            res = dict(ex.map(one, devs))
        silent = [d for d, v in res.items() if not v]
        if silent:
            raise tla.MachineryError(f"deviation(s) {silent} of {module} do not violate any property: invariants are vacuous")
        report.coverage.setdefault("deviation_counterexamples", {}).update(res)
        return res
    finally:
        shutil.rmtree(tmp, ignore_errors=True)


def _safe(packed):
    """Exceptions raised in a pool process may hold unpicklable objects (modules, locks): send their text instead."""
    fn, job = packed
    try:
        return fn(job)
    except (tla.MachineryError, KeyboardInterrupt, SystemExit):
        raise
    except BaseException:  # noqa: BLE001      (the library has a BaseException subclass, BaseTypeError: an escaping one would kill the pool process and hang the pool)
        import traceback
        raise tla.MachineryError("driver raised in a pool process:\n" + traceback.format_exc()[-3000:]) from None


def pmap(fn, jobs_list, procs=None):
    procs = procs or common.jobs()
    if len(jobs_list) <= 1 or procs == 1:
        return [fn(j) for j in jobs_list]
    # concurrent.futures, not multiprocessing.Pool: when a pool process dies (the kernel's OOM killer, a crash) the latter waits for ever,
    # the former raises BrokenProcessPool
    from concurrent.futures import ProcessPoolExecutor
    from concurrent.futures.process import BrokenProcessPool
    ctx = mp.get_context("fork")
    try:
        with ProcessPoolExecutor(max_workers=min(procs, len(jobs_list)), mp_context=ctx) as pool:
            return list(pool.map(_safe, [(fn, j) for j in jobs_list], chunksize=1))
    except BrokenProcessPool:
        raise tla.MachineryError("a pool process died while driving the code under test (killed, e.g. out of memory): no verdict") from None


# ----------------------------------------------------------------------------- drive + judge inside the worker processes

def _judged_job(packed):
    """Runs in a pool process: produce the events of a batch of jobs, let TLC judge them there (flushing whenever `chunk` events have
    accumulated, so memory stays bounded), return only the verdicts."""
    fn, batch, module, env, replay_fn, key_fn, nontrivial_fn, chunk = packed
    out = {"n": 0, "bad": [], "ante": {}, "distinct": 0, "samples": [], "hashes": set()}

    def flush(events):
        if not events:
            return
        res = tla.judge(module, events, chunk=chunk, jobs=1, env=env)
        for gi, clause, detail in res["bad"]:
            out["bad"].append((clause, replay_fn(events[gi], detail)))
        for k, v in res["ante"].items():
            out["ante"][k] = out["ante"].get(k, 0) + v
        keys = {common.digest(key_fn(e)) for e in events if nontrivial_fn(e)}
        out["n"] += len(events)
        if out["hashes"] is not None:
            out["hashes"] |= keys
            if len(out["hashes"]) > 200000:
                out["distinct"] += len(out["hashes"])
                out["hashes"] = None
        else:
            out["distinct"] += len(keys)
        if len(out["samples"]) < 2:
            out["samples"] += [events[0], events[len(events) // 2]]

    pending = []
    for job in batch:
        events = fn(job)
        if isinstance(events, tuple):          # drivers returning (ops, reads) style tuples
            events = [e for part in events for e in part]
        pending += events
        if len(pending) >= chunk:
            flush(pending)
            pending = []
    flush(pending)
    if out["hashes"] is not None:
        out["distinct"] += len(out["hashes"])
        if len(out["hashes"]) > 50000:
            out["hashes"] = None
    return out


def run_judged(fn, jobs_list, module, *, replay_fn, key_fn, nontrivial_fn=lambda e: True, env=None, chunk=20000, procs=None, disjoint=True, batch=None):
    """pmap over jobs with the judge running inside each worker; memory stays bounded by one job's events.
    Returns dict(n, bad=[(clause, (replay, detail))], ante, distinct, samples).  `disjoint`: the jobs partition the case space
    (distinct counts add up); otherwise digests are merged (only possible while they are few)."""
    jobs_list = list(jobs_list)
    ntasks = max(1, min(len(jobs_list), batch or (procs or common.jobs()) * 3))    # `batch` = number of pool tasks; a few per process: few JVM starts, still balanced
    packed = [(fn, jobs_list[i::ntasks], module, env, replay_fn, key_fn, nontrivial_fn, chunk) for i in range(ntasks)]
    out = {"n": 0, "bad": [], "ante": {}, "distinct": 0, "samples": []}
    merged = set()
    for r in pmap(_judged_job, packed, procs=procs):
        out["n"] += r["n"]
        out["bad"] += r["bad"]
        for k, v in r["ante"].items():
            out["ante"][k] = out["ante"].get(k, 0) + v
        if disjoint or r["hashes"] is None:
            out["distinct"] += r["distinct"]
        else:
            merged |= r["hashes"]
            if len(merged) > 3000000:          # give up merging, count what we have and continue additively
                out["distinct"] += len(merged)
                merged, disjoint = set(), True
        if len(out["samples"]) < 24:
            out["samples"] += r["samples"][:2]
    out["distinct"] += len(merged)
    return out


# ----------------------------------------------------------------------------- binding canaries

def canaries(report, module, events, corrupt, *, env=None, want=12, label=None):
    """Binding demonstration run with every check: take real recorded events, corrupt ONE recorded field of each (corrupt(e) -> list of
    (what, corrupted copy)), and require the judge to reject every corrupted event.  A judge that accepts one is not constraining that field:
    machinery error, never a verdict.  Returns the number of corrupted events rejected."""
    import copy as _copy
    # only events the judge ACCEPTS as they are can serve as a base: corrupting one field of an event that already violates a clause
    # (the code under test may be defective) can turn it into a conforming one
    events = list(events)[:max(want * 6, 60)]
    if events:
        base = tla.judge(module, events, jobs=1, env=env)
        rejected = {gi for gi, _, _ in base["bad"]}
        events = [e for i, e in enumerate(events) if i not in rejected]
    bad_events, whats = [], []
    for e in events:
        for what, c in corrupt(_copy.deepcopy(e)):
            bad_events.append(c)
            whats.append(what)
        if len(bad_events) >= want:
            break
    if not bad_events:
        if not events:
            # every sample event already violates the specification: the violations are reported by the check itself, nothing to demonstrate here
            report.coverage.setdefault("binding_canaries", {})[label or module] = {"corrupted_events_rejected": 0, "fields": [], "note": "no conforming sample event"}
            return 0
        raise tla.MachineryError(f"no canary could be derived from the sample events of {module}")
    res = tla.judge(module, bad_events, jobs=1, env=env)
    flagged = {gi for gi, _, _ in res["bad"]}
    accepted = [whats[i] for i in range(len(bad_events)) if i not in flagged]
    if accepted:
        raise tla.MachineryError(f"judge {module} accepted corrupted events ({accepted[:4]}): the field is not bound to the specification")
    kinds = sorted(set(whats))
    report.coverage.setdefault("binding_canaries", {})[label or module] = {"corrupted_events_rejected": len(bad_events), "fields": kinds}
    return len(bad_events)
