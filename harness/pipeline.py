"""Reusable steps of a check: MC (+dump, +action export), deviation sensitivity, parallel drive, judge."""
import json
import multiprocessing as mp
import os
import shutil

from . import common, tla


def write_cfg(tmp, name, text):
    p = os.path.join(tmp, name)
    with open(p, "w") as f:
        f.write(text)
    return p


def mc_run(report, module, cfg_path, *, label, dump=True, acts=True, workers=8, timeout=1500, env=None, coverage=False,
           must_hold=True, heap="4g", cwd=None, library=None):
    """Model-check; returns dict(states=[...], acts=[...], out=text).  A violated property of the
    *specification* on the unchanged design is a machinery error (the design is the reference)."""
    tmp = tla.scratch("mc-")
    try:
        args = []
        e = dict(env or {})
        if dump:
            args += ["-dump", os.path.join(tmp, "states")]
        if acts:
            e["VERIF_ACTS"] = os.path.join(tmp, "acts.json")
        if coverage:
            args += ["-coverage", "1"]
        out, wall = tla.run_tlc(module, cfg_path, workers=workers, args=args, env=e, timeout=timeout, heap=heap,
                                **({"cwd": cwd, "library": library} if cwd else {}))
        if must_hold and not tla.mc_ok(out):
            raise tla.MachineryError(f"specification {module} ({label}) violates its own properties "
                                     f"[{tla.mc_violation(out)}]:\n{out[-3000:]}")
        stats = tla.mc_stats(out)
        report.add_mc(label, stats, wall)
        res = {"out": out, "stats": stats}
        if dump:
            res["states"] = [tla.unset(s) for s in tla.parse_dump(os.path.join(tmp, "states.dump"))]
            if len(res["states"]) != stats["distinct"]:
                raise tla.MachineryError(f"dump has {len(res['states'])} states, TLC reported {stats['distinct']}")
        if acts:
            res["acts"] = json.load(open(e["VERIF_ACTS"]))
        if coverage:
            res["coverage"] = tla.coverage_actions(out)
        return res
    finally:
        shutil.rmtree(tmp, ignore_errors=True)


def deviation_runs(report, module, cfg_text_for, devs, *, workers=2, timeout=600):
    """Anti-vacuity: with each named deviation switched on, TLC must report a violation.
    cfg_text_for(dev) -> cfg text.  Records {dev: violated property}."""
    from concurrent.futures import ThreadPoolExecutor
    tmp = tla.scratch("dev-")
    try:
        def one(d):
            p = write_cfg(tmp, f"dev_{d}.cfg", cfg_text_for(d))
            out, _ = tla.run_tlc(module, p, workers=workers, timeout=timeout)
            return d, tla.mc_violation(out)
        with ThreadPoolExecutor(max_workers=4) as ex:
            res = dict(ex.map(one, devs))
        silent = [d for d, v in res.items() if not v]
        if silent:
            raise tla.MachineryError(f"deviation(s) {silent} of {module} do not violate any property: invariants are vacuous")
        report.coverage.setdefault("deviation_counterexamples", {}).update(res)
        return res
    finally:
        shutil.rmtree(tmp, ignore_errors=True)


def pmap(fn, jobs_list, procs=None):
    procs = procs or common.jobs()
    if len(jobs_list) <= 1 or procs == 1:
        return [fn(j) for j in jobs_list]
    ctx = mp.get_context("fork")
    with ctx.Pool(min(procs, len(jobs_list))) as pool:
        return pool.map(fn, jobs_list, chunksize=1)
