"""Shared plumbing: repo path, tiers/seeds, verdict reporting, evidence, known findings."""
import hashlib
import json
import os
import sys
import time

VERIF = os.path.dirname(os.path.dirname(os.path.abspath(__file__)))
REPO = os.environ.get("VERIF_REPO", "/repo")
if REPO not in sys.path:
    sys.path.insert(0, REPO)
os.environ.setdefault("PYTHONHASHSEED", "0")

EVIDENCE_DIR = os.path.join(VERIF, "evidence")
REPLAY_DIR = os.path.join(VERIF, "replays")
if os.path.realpath(REPO) != "/repo":
    # a scratch copy / mutant is under test: keep its evidence and replays out of /verif
    EVIDENCE_DIR = os.path.join(os.environ.get("VERIF_SCRATCH_OUT", "/tmp/verif-mutant-out"), "evidence")
    REPLAY_DIR = os.path.join(os.environ.get("VERIF_SCRATCH_OUT", "/tmp/verif-mutant-out"), "replays")
FINDINGS_FILE = os.path.join(VERIF, "known_findings.json")


def seed():
    try:
        return int(os.environ.get("VERIF_SEED", "0"))
    except ValueError:
        return 0


def tier(default="quick"):
    t = os.environ.get("VERIF_TIER", default)
    return t if t in ("quick", "thorough") else default


def jobs():
    try:
        return max(1, min(16, int(os.environ.get("VERIF_JOBS", str(os.cpu_count() or 4)))))
    except ValueError:
        return 8


def load_findings(prop=None):
    if not os.path.exists(FINDINGS_FILE):
        return []
    fs = json.load(open(FINDINGS_FILE))["findings"]
    return [f for f in fs if prop is None or f["property"] == prop]


def canon(obj):
    return json.dumps(obj, sort_keys=True, separators=(",", ":"))


def digest(obj):
    return hashlib.sha1(canon(obj).encode()).hexdigest()[:12]


class Report:
    """Collects the outcome of one check run, prints the contractual lines, writes evidence."""

    def __init__(self, prop, tier_, level="model_checking"):
        self.prop = prop
        self.tier = tier_
        self.level = level
        self.t0 = time.time()
        self.violations = []      # (clause, replay dict)
        self.known_hits = {}      # finding id -> count
        self.coverage = {"states": 0, "transitions": 0, "traces_validated_against_impl": 0, "samples": [],
                         "evaluations": 0, "distinct_nontrivial": 0}
        self.assumptions = []
        self.notes = {}
        self.findings = [f for f in load_findings(prop)]

    def mark(self, phase):
        now = time.time()
        self.coverage.setdefault("phase_wall_s", {})[phase] = round(now - getattr(self, "_tmark", self.t0), 2)
        self._tmark = now

    # -- model checking numbers
    def add_mc(self, name, stats, wall):
        self.coverage["states"] += stats["distinct"]
        self.coverage["transitions"] += stats["generated"]
        self.coverage.setdefault("mc_runs", []).append({"model": name, "distinct_states": stats["distinct"],
                                                        "transitions": stats["generated"], "wall_s": round(wall, 2)})

    def add_events(self, n, distinct_nontrivial, samples=()):
        self.coverage["traces_validated_against_impl"] += n
        self.coverage["evaluations"] += n
        self.coverage["distinct_nontrivial"] += distinct_nontrivial
        for s in samples:
            if len(self.coverage["samples"]) < 6:
                self.coverage["samples"].append(s)

    def violation(self, clause, replay, detail=""):
        """Record a failing (event, clause).  Open known findings whose matcher accepts the replay
        are counted as KNOWN instead."""
        for f in self.findings:
            if f.get("status") == "open" and finding_matches(f, clause, replay):
                self.known_hits[f["id"]] = self.known_hits.get(f["id"], 0) + 1
                return "known"
        self.violations.append((clause, replay, detail))
        return "violation"

    def finish(self, extra_cov=None, rule=""):
        os.makedirs(EVIDENCE_DIR, exist_ok=True)
        os.makedirs(REPLAY_DIR, exist_ok=True)
        cov = self.coverage
        if extra_cov:
            cov.update(extra_cov)
        cov["rule"] = rule
        for f in self.findings:
            if f.get("status") == "open":
                print(f"KNOWN-FINDING: property={self.prop} {f['id']} {f['what']} (hit {self.known_hits.get(f['id'], 0)}x this run)")
        shown = {}
        for clause, replay, detail in self.violations:
            key = clause + ":" + str(replay.get("family", ""))
            shown[key] = shown.get(key, 0) + 1
            if shown[key] > 3:
                continue
            path = os.path.join(REPLAY_DIR, f"{self.prop}-{digest(replay)}.json")
            with open(path, "w") as fh:
                json.dump({"property": self.prop, "clause": clause, "detail": detail, "replay": replay}, fh, indent=1)
            print(f"VIOLATION property={self.prop} replay={path}  clause={clause} {detail}"[:600])
        if self.violations:
            by, cl = {}, {}
            for clause, _, detail in self.violations:
                by[clause] = by.get(clause, 0) + 1
                cl[clause + " | " + detail] = cl.get(clause + " | " + detail, 0) + 1
            for k, v in sorted(cl.items(), key=lambda kv: -kv[1])[:60]:
                print(f"  cluster {v:7d}  {k}")
            print(f"{self.prop}: {len(self.violations)} violating (event, clause) pairs: {by}")
            cov["violations_by_clause"] = by
        ev = {
            "property_id": self.prop, "tier": self.tier, "seed": seed(), "level": self.level,
            "coverage": cov, "assumptions": self.assumptions,
            "wall_s": round(time.time() - self.t0, 2), "violations": len(self.violations),
            "known_findings_hit": self.known_hits,
        }
        ev.update(self.notes)
        with open(os.path.join(EVIDENCE_DIR, f"{self.prop}.json"), "w") as fh:
            json.dump(ev, fh, indent=1, default=str)
        status = "VIOLATED" if self.violations else "held"
        print(f"{self.prop} [{self.tier}] {status}: MC {cov['states']} distinct states / {cov['transitions']} transitions; "
              f"{cov['traces_validated_against_impl']} real executions judged; {ev['wall_s']}s")
        return 1 if self.violations else 0


def finding_matches(f, clause, replay):
    """A known finding lists the specific failing input: `match` is a dict of dotted-path -> value
    that must all be present in the replay, plus optional `clauses` restricting the judge clause."""
    if f.get("clauses") and clause not in f["clauses"]:
        return False
    if f.get("match_any"):
        return any(_match(m, replay) for m in f["match_any"])
    return _match(f.get("match") or {}, replay)


def _match(m, replay):
    for path, want in m.items():
        cur = replay
        for part in path.split("."):
            if isinstance(cur, dict) and part in cur:
                cur = cur[part]
            elif isinstance(cur, list) and part.isdigit() and int(part) < len(cur):
                cur = cur[int(part)]
            else:
                return False
        if isinstance(want, dict) and "$in" in want:
            if cur not in want["$in"]:
                return False
        elif isinstance(want, dict) and "$prefix" in want:
            if not (isinstance(cur, str) and cur.startswith(want["$prefix"])):
                return False
        elif cur != want:
            return False
    return True


def chunks(seq, n):
    k = max(1, (len(seq) + n - 1) // n)
    return [seq[i:i + k] for i in range(0, len(seq), k)]


class HangError(Exception):
    """Raised inside a driver when one operation of the code under test does not return within its deadline."""


import contextlib as _contextlib
import signal as _signal
import threading as _threading


@_contextlib.contextmanager
def deadline(seconds):
    """An operation of the code under test that does not return (a seeded change can turn a loop into an endless one) is reported to the
    judge as the outcome `HangError` instead of hanging the check.  Main thread of a (pool) process only; elsewhere a no-op."""
    if _threading.current_thread() is not _threading.main_thread():
        yield
        return

    def on_alarm(signum, frame):
        raise HangError(f"no return within {seconds}s")

    old = _signal.signal(_signal.SIGALRM, on_alarm)
    _signal.setitimer(_signal.ITIMER_REAL, seconds)
    try:
        yield
    finally:
        _signal.setitimer(_signal.ITIMER_REAL, 0)
        _signal.signal(_signal.SIGALRM, old)


# diagnostics: `kill -USR1 <pid>` makes any harness process print the Python stack of all its threads to stderr
try:
    import faulthandler as _faulthandler
    _faulthandler.register(_signal.SIGUSR1, all_threads=True)
except Exception:  # noqa: BLE001
    pass
