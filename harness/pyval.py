"""alpha / gamma between real Python objects and the specification's PyVal / PyTypes terms."""
import typing
from typing import Any, Dict, List, Literal, Optional, Set, Tuple, Type, Union

from . import common  # noqa: F401
from spec_classes import spec_class
from spec_classes.types import bounded, validated


class A:
    pass


class B(A):
    pass


class C:
    pass


@spec_class(bootstrap=True)
class K:
    x: int = 1


CLASSES = {"A": A, "B": B, "C": C, "K": K, "int": int, "bool": bool, "str": str, "float": float, "object": object}
_VALIDATORS = {
    "even": validated(lambda o: isinstance(o, int) and o % 2 == 0, "even"),
    "nonempty": validated(lambda o: not isinstance(o, type) and hasattr(o, "__len__") and len(o) > 0, "nonempty"),          # (a total predicate: classes have no length)
}
_BOUNDED = {}


def gamma(v):
    t = v["t"]
    if t == "int":
        return v["i"]
    if t == "bool":
        return v["b"]
    if t == "float":
        return v["h"] / 2
    if t == "str":
        return v["s"]
    if t == "bytes":
        return v["s"].encode()
    if t == "none":
        return None
    if t == "list":
        return [gamma(x) for x in v["e"]]
    if t == "tuple":
        return tuple(gamma(x) for x in v["e"])
    if t == "set":
        return {gamma(x) for x in v["e"]}
    if t == "dict":
        return {gamma(e["k"]): gamma(e["v"]) for e in v["e"]}
    if t == "cls":
        return CLASSES[v["n"]]
    if t == "obj":
        cls = CLASSES[v["c"]]
        if v["a"]:
            return cls(**{k: gamma(x) for k, x in v["a"].items()})
        return cls()
    raise ValueError(v)


def gamma_type(T, style=0):
    """Render an annotation term; `style` alternates typing generics / PEP 585 / PEP 604 spellings."""
    k = T["k"]
    g = lambda x: gamma_type(x, style // 2 if style else 0)
    pep = style % 2 == 1
    if k == "any":
        return Any
    if k == "base":
        return {"int": int, "float": float, "str": str, "bool": bool, "bytes": bytes, "none": type(None)}[T["n"]]
    if k == "user":
        return CLASSES[T["c"]]
    if k == "list":
        return list[g(T["a"])] if pep else List[g(T["a"])]
    if k == "set":
        return set[g(T["a"])] if pep else Set[g(T["a"])]
    if k == "dict":
        return dict[g(T["a"]), g(T["b"])] if pep else Dict[g(T["a"]), g(T["b"])]
    if k == "tuple":
        args = tuple(g(a) for a in T["as"])
        if not args:
            return tuple[()] if pep else Tuple[()]
        return tuple[args] if pep else Tuple[args]
    if k == "tuplevar":
        return tuple[g(T["a"]), ...] if pep else Tuple[g(T["a"]), ...]
    if k == "type":
        targ = Any if T["c"] == "any" else CLASSES[T["c"]]
        return type[targ] if pep else Type[targ]
    if k == "typeu":
        targ = Union[tuple(CLASSES[c] for c in T["cs"])]
        return type[targ] if pep else Type[targ]
    if k == "union":
        args = [g(a) for a in T["as"]]
        if pep:
            out = args[0]
            try:
                for a in args[1:]:
                    out = out | a
                if isinstance(out, type) or out is Any:     # X | X collapses to X: same meaning
                    return out
                return out
            except TypeError:
                pass
        if len(args) == 2 and args[1] is type(None) and style % 4 >= 2:
            return Optional[args[0]]
        return Union[tuple(args)]
    if k == "literal":
        return Literal[tuple(gamma(x) for x in T["vs"])]
    if k == "bounded":
        key = common.canon(T)
        if key not in _BOUNDED:
            kw = {}
            if T["lo"]["b"] != "none":
                kw[T["lo"]["b"]] = T["lo"]["x"]
            if T["hi"]["b"] != "none":
                kw[T["hi"]["b"]] = T["hi"]["x"]
            _BOUNDED[key] = bounded({"int": int, "float": float}[T["n"]], **kw)
        return _BOUNDED[key]
    if k == "validated":
        return _VALIDATORS[T["f"]]
    raise ValueError(T)
