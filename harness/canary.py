"""Binding canaries: per event family, ways of corrupting ONE recorded field of a real event such that the judge of that family must
reject the result (pipeline.canaries runs them with every check).  Each function takes a private copy of a real event and returns a
list of (name of the corrupted field, corrupted event); an empty list means this event offers nothing to corrupt."""
import copy


def _c(e):
    return copy.deepcopy(e)


def _first_int_attr(o):
    if not isinstance(o, dict) or o.get("t") != "obj":
        return None
    for k, v in o["a"].items():
        if isinstance(v, dict) and v.get("t") == "int":
            return k
    return None


# ---- spec-class core (J_SpecClass): only clauses that do not depend on the call form being specified
def specclass(e, frozen_or_dnc=False):
    out = []
    cow = e["a"].get("inplace") is False
    k = _first_int_attr(e["recv_post"])
    if cow and not frozen_or_dnc and k and e["pre"]["a"][k] == e["recv_post"]["a"][k]:
        c = _c(e)
        c["recv_post"]["a"][k] = {"t": "int", "i": e["recv_post"]["a"][k]["i"] + 7}
        out.append(("recv_post (receiver of a copy-on-write call)", c))
    if e["res"] == "ok" and e.get("result_kind") == "obj":
        kk = _first_int_attr(e["result"])
        if kk:
            c = _c(e)
            c["result"]["a"][kk] = {"t": "float", "h": 3}
            out.append(("result (ill-typed attribute value)", c))
    if e["res"] == "ok" and not cow and e["recv_post"] != {x: y for x, y in e["pre"].items() if x != "ov"}:
        c = _c(e)
        c["res"] = "ValueError"
        c["result"], c["result_kind"], c["same"] = {"t": "missing"}, "none", False
        out.append(("res (a changing in-place call reported as raising)", c))
    if not (e["a"].get("op") == "update_repl" and frozen_or_dnc):          # (the replacement of a do_not_copy class is edited in place by declaration: not demanded there)
        c = _c(e)
        c["args_same"] = False
        out.append(("args_same", c))
    return out


def specclass_for(frozen_scenarios):
    def f(e):
        return specclass(e, frozen_or_dnc=e["scn"] in frozen_scenarios)
    return f


# ---- KeyedList (J_KeyedList)
def keyedlist(e):
    out = []
    if e["kind"] == "op":
        c = _c(e)
        c["res"] = "KeyError" if e["res"] == "ok" else "ok"
        out.append(("res", c))
        c = _c(e)
        if c["post"]["lst"]:
            c["post"]["lst"] = c["post"]["lst"][:-1]
        else:
            c["post"]["lst"] = [{"k": c["cfg"].get("intkeys") and 99 or "zz", "p": 0, "bad": "no"}]
        out.append(("post.lst", c))
        if e["post"]["keys"]:
            c = _c(e)
            c["post"]["keys"] = c["post"]["keys"][:-1]
            out.append(("post.keys (the key index)", c))
    else:
        c = _c(e)
        c["reads"]["eq"] = [False, False, False, True]
        out.append(("reads.eq", c))
        if e["reads"]["getidx"]:
            c = _c(e)
            c["reads"]["getidx"][0]["res"] = "ok" if c["reads"]["getidx"][0]["res"] != "ok" else "IndexError"
            out.append(("reads.getidx", c))
    return out


# ---- KeyedSet (J_KeyedSet)
def keyedset(e):
    out = []
    c = _c(e)
    c["res"] = "KeyError" if e["res"] == "ok" else "ok"
    out.append(("res", c))
    mutators = {"add", "discard", "remove", "pop", "clear", "ior", "iand", "isub", "ixor"}
    if e["a"]["op"] in mutators:
        c = _c(e)
        if c["post"]["s"]:
            c["post"]["s"] = c["post"]["s"][:-1]
        else:
            c["post"]["s"] = [{"k": "zz", "p": 0, "bad": "no"}]
        out.append(("post.s", c))
    return out


# ---- step sequences (J_SpecProperty, J_Alias)
def steps_family(e):
    out = []
    if not e.get("steps"):
        return out
    j = len(e["steps"]) // 2
    c = _c(e)
    c["steps"][j]["res"] = "AttributeError" if c["steps"][j]["res"] == "ok" else "ok"
    out.append(("steps[j].res", c))
    reads = [i for i, s in enumerate(e["steps"]) if s["res"] == "ok" and s["val"].get("t") == "int"]
    if reads:
        c = _c(e)
        c["steps"][reads[0]]["val"] = {"t": "int", "i": c["steps"][reads[0]]["val"]["i"] + 1000}
        out.append(("steps[j].val", c))
    return out


# ---- run-time type check (J_PyTypes)
def pytypes(e):
    c = _c(e)
    c["res"] = "reject" if e["res"] == "accept" else "accept"
    return [("res", c)]


# ---- bootstrap (J_Bootstrap)
def bootstrap(e):
    out = []
    if e.get("threads"):
        c = _c(e)
        c["threads"][0]["outcome"] = "AttributeError"
        out.append(("threads[0].outcome", c))
        c = _c(e)
        c["threads"][-1]["desc"] = "0" * 12
        out.append(("threads[-1].desc (observed class differs from eager)", c))
    return out


# ---- copy guard (J_CopyGuard)
def copyguard(e):
    out = []
    c = _c(e)
    c["final_table"] = "ours" if e["final_table"] != "ours" else "absent"
    out.append(("final_table", c))
    return out


# ---- defaults (J_Defaults)
def defaults(e):
    out = []
    dfl = [j for j, r in enumerate(e["post"]) if r["kind"] == "dflt" and any(p["name"] == r["name"] for p in e["pre"])]
    if dfl:
        c = _c(e)
        c["post"][dfl[0]]["v"] = {"t": "int", "i": 424242}
        out.append(("post[dflt].v", c))
    if e["res"] == "ok" and e["op"] != "poke":
        c = _c(e)
        c["res"] = "RuntimeError"
        out.append(("res", c))
    return out


# ---- construction (J_Construction)
def construct(e):
    out = []
    c = _c(e)
    c["res"] = "TypeError" if e["res"] == "ok" else "ok"
    out.append(("res", c))
    if e["res"] == "ok":
        ints = [k for k, v in e["attrs"].items() if v.get("t") == "int"]
        if ints:
            c = _c(e)
            c["attrs"][ints[0]] = {"t": "int", "i": e["attrs"][ints[0]]["i"] + 1000}
            out.append(("attrs", c))
    return out


# ---- equality / repr (J_Equality)
def equality(e):
    out = []
    if e["kind"] == "pair":
        c = _c(e)
        c["eq"] = not e["eq"]
        out.append(("eq", c))
    elif e["kind"] == "repr" and e["repr_res"] == "ok":
        c = _c(e)
        c["repr_res"] = "AttributeError"
        out.append(("repr_res", c))
        if e["repr_names"]:
            c = _c(e)
            c["repr_names"] = list(reversed(e["repr_names"])) if len(e["repr_names"]) > 1 else []
            out.append(("repr_names", c))
    elif e["kind"] == "self":
        c = _c(e)
        c["copy_eq"] = False
        out.append(("copy_eq", c))
    return out


# ---- decoration (J_Decoration)
def decoration(e):
    out = []
    if e["res"] == "ok" and e["phases"]:
        c = _c(e)
        c["phases"][-1]["names"] = sorted(set(c["phases"][-1]["names"]) | {"bogus_helper"})
        out.append(("phases[-1].names (+ undocumented name)", c))
        helpers = [n for n in e["phases"][-1]["names"] if n.startswith("with_")]
        if helpers and e["extra"] not in helpers[:1]:
            c = _c(e)
            for ph in c["phases"]:
                ph["names"] = [n for n in ph["names"] if n != helpers[0]]
            out.append(("phases[*].names (- documented helper)", c))
    return out


# ---- signatures (J_Signature)
def signature(e):
    out = []
    if e["kind"] == "call":
        c = _c(e)
        if e["res"] == "accept":
            c["res"], c["spy_called"] = "TypeError", False
        else:
            c["res"], c["spy_called"], c["spy_ok"] = "accept", True, True
        out.append(("res", c))
        if e["res"] == "accept":
            c = _c(e)
            c["spy_ok"] = False
            out.append(("spy_ok", c))
    if e["kind"] == "deliver" and e["kws"]:
        c = _c(e)
        c["kws"][0]["where"] = []
        out.append(("where", c))
    return out
