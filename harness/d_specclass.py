"""Driver for the spec-class core (C01-C08, C11): executes model actions on real spec-class instances and
records events (value projections, identity tokens, argument objects, class defaults, a peer instance)."""
import copy
import random

from . import common, sched, scenarios as S
from spec_classes import MISSING, UNCHANGED
from spec_classes.types import KeyedList, KeyedSet


def _inc(x):
    return (x + 1) % 3


def _up(s):
    if not isinstance(s, str):
        raise TypeError("up() wants a str")
    return "b" if s == "a" else "a"


def _boom1(x):
    if isinstance(x, int) and x == 1:
        raise ZeroDivisionError("boom1")
    return x


def _boomv1(c):
    if getattr(c, "v", None) == 1 and not isinstance(c, dict):
        raise ZeroDivisionError("boomv1")
    return c


FN = {
    "boomv1": _boomv1,
    "same": lambda x: x,
    "inc": _inc,
    "pclip": lambda x: min(x, 1) if isinstance(x, int) else x,
    "pclip0": lambda x: (1 // x and min(x, 1)) if isinstance(x, int) and not isinstance(x, bool) and x == 0 else (min(x, 1) if isinstance(x, int) else x),
    "tostr": lambda x: "s",
    "zero": lambda x: 0,
    "boom": lambda x: 1 // 0,
    "boom1": _boom1,
    "up": _up,
    "bumpv": lambda c: c.with_v((c.v + 1) % 3),
}
GETTERS = {
    "a_plus_10": lambda self: self.a + 10,
    "p_times_2": lambda self: self.p * 2,
    "a_plus_b": lambda self: self.a + self.b,
    "c_plus_1": lambda self: self.c + 1,
    "len_xs": lambda self: len(self.xs),
}


CURRENT = {"world": None}


class World:
    """The real classes of one scenario."""

    def __init__(self, name, scn=None):
        self.name = name
        self.scn = scn or S.SCENARIOS[name]
        self.counts = {}
        self.kept = []
        self.alias_equal = False
        self.ns = {"FN": FN, "GETTERS": GETTERS, "COUNTS": self.counts, "KEPT": self.kept, "__name__": f"scn_{name}"}
        exec(S.source(self.scn), self.ns)
        FN["shared"] = lambda x: CURRENT["world"].shared
        FN["plookup"] = lambda x: CURRENT["world"].shared if isinstance(x, str) and x == "s" else x
        self.root = self.ns[self.scn["root"]]
        self.classes = {n: self.ns[n] for n in self.scn["classes"]}
        for c in self.classes.values():            # bootstrap now: class-level state is observed by some checks
            getattr(c, "__spec_class__", None)
        # a pre-existing object that some callbacks of the pool hand back (a "registry entry")
        self.shared = self.classes["Child"](v=1, ws=[1]) if "Child" in self.classes else None
        self.by_type = {c: n for n, c in self.classes.items()}
        self.dnc_attrs = {n: {a["name"] for a in c["attrs"] if a["dnc"]} for n, c in self.scn["classes"].items()}
        self.props = {n: [p["name"] for p in c["props"]] for n, c in self.scn["classes"].items()}

    # ---- gamma: PyVal -> real object (harness bookkeeping: never a fault point)
    def gamma(self, v):
        with sched.untraced():
            return self._gamma(v)

    def alpha(self, x):
        with sched.untraced():
            return self._alpha(x)

    def _gamma(self, v):
        t = v["t"]
        if t == "int":
            return v["i"]
        if t == "bool":
            return v["b"]
        if t == "float":
            return v["h"] / 2
        if t == "str":
            return v["s"]
        if t == "none":
            return None
        if t == "missing":
            return MISSING
        if t == "unchanged":
            return UNCHANGED
        if t == "list":
            if self.alias_equal:          # the SAME object at every position holding equal spec items (a caller passing [u] * n)
                memo = {}
                return [memo.setdefault(common.canon(x), self._gamma(x)) if x.get("t") == "obj" else self._gamma(x) for x in v["e"]]
            return [self._gamma(x) for x in v["e"]]
        if t == "tuple":
            return tuple(self._gamma(x) for x in v["e"])
        if t == "set":
            return {self._gamma(x) for x in v["e"]}
        if t == "dict":
            return {self._gamma(e["k"]): self._gamma(e["v"]) for e in v["e"]}
        if t == "klist":
            return KeyedList([self._gamma(x) for x in v["e"]])
        if t == "kset":
            return KeyedSet([self._gamma(x) for x in v["e"]])
        if t == "obj":
            ofl = self.scn["classes"][v["c"]].get("overflow", "")
            kwargs = {k: self._gamma(x) for k, x in v["a"].items() if x["t"] != "missing" and k != ofl}
            if ofl and v["a"].get(ofl, {}).get("t") == "dict":          # the overflow mapping is filled by passing its entries as (unknown) keywords
                kwargs.update({e["k"]["s"]: self._gamma(e["v"]) for e in v["a"][ofl]["e"]})
            return self.classes[v["c"]](**kwargs)
        raise ValueError(v)

    # ---- alpha: real object -> PyVal
    def _alpha(self, x):
        if x is MISSING:
            return S.MISSING
        if x is None:
            return S.NONE
        if isinstance(x, bool):
            return {"t": "bool", "b": x}
        if isinstance(x, int):
            return {"t": "int", "i": x} if -2**30 < x < 2**30 else {"t": "alien", "s": "bigint"}
        if isinstance(x, float):
            return {"t": "float", "h": int(x * 2)} if x * 2 == int(x * 2) else {"t": "alien", "s": repr(x)}
        if isinstance(x, str):
            return {"t": "str", "s": x}
        if isinstance(x, KeyedList):
            # the key index is part of the observable state (keys(), x[key], index_for_key): an index out of step with the items is alien
            try:
                coherent = len(x._dict) == len(x._list) and all(x._dict.get(x.key(y), MISSING) is y for y in x._list)
            except Exception:
                coherent = False
            if not coherent:
                return {"t": "alien", "s": "keyed list whose key index disagrees with its items"}
            return {"t": "klist", "e": [self._alpha(y) for y in x]}
        if isinstance(x, KeyedSet):
            try:
                coherent = all(x.key(y) == k for k, y in x._dict.items())
            except Exception:
                coherent = False
            if not coherent:
                return {"t": "alien", "s": "keyed set whose keys disagree with its items"}
            return {"t": "kset", "e": [self._alpha(y) for y in x]}
        if isinstance(x, list):
            return {"t": "list", "e": [self._alpha(y) for y in x]}
        if isinstance(x, tuple):
            return {"t": "tuple", "e": [self._alpha(y) for y in x]}
        if isinstance(x, (set, frozenset)):
            return {"t": "set", "e": sorted((self._alpha(y) for y in x), key=common.canon)}
        if isinstance(x, dict):
            return {"t": "dict", "e": [{"k": self._alpha(k), "v": self._alpha(v)} for k, v in x.items()]}
        cname = self.by_type.get(type(x))
        if cname is not None:
            d = x.__dict__
            attrs = {a["name"]: self._alpha(d.get(a["name"], MISSING)) for a in self.scn["classes"][cname]["attrs"]}
            xs = {"_": S.MISSING}
            for p in self.props[cname]:
                xs[p] = self._alpha(d.get(p, MISSING))
            extra = sorted(k for k in d if k not in attrs and k not in xs)
            out = {"t": "obj", "c": cname, "a": attrs, "x": xs}
            if extra:
                out["a"]["__extra__"] = {"t": "alien", "s": ",".join(extra)[:60]}
            return out
        return {"t": "alien", "s": type(x).__name__}

    # ---- identity tokens of the mutable nodes reachable from x
    def tokens(self, x, reg, path="", out=None, skip_dnc=False, dnc_out=None):
        with sched.untraced():
            return self._tokens(x, reg, path, out, skip_dnc, dnc_out)

    def _tokens(self, x, reg, path="", out=None, skip_dnc=False, dnc_out=None):
        if out is None:
            out = []
        mutable = isinstance(x, (list, dict, set, KeyedList, KeyedSet)) or type(x) in self.by_type
        if type(x) in self.by_type and self.scn["classes"][self.by_type[type(x)]]["frozen"] and path:
            # a nested frozen instance cannot be changed through the API: an immutable leaf (DESIGN.md C02)
            return out
        if not mutable:
            if isinstance(x, tuple):
                for i, y in enumerate(x):
                    self._tokens(y, reg, f"{path}/{i}", out, skip_dnc, dnc_out)
            return out
        out.append([path, reg.token(x)])
        if type(x) in self.by_type:
            cname = self.by_type[type(x)]
            for k, v in x.__dict__.items():
                if k in self.dnc_attrs[cname] and dnc_out is not None:
                    self._tokens(v, reg, f"{path}/{k}", dnc_out)
                self._tokens(v, reg, f"{path}/{k}", out, skip_dnc, dnc_out)
        elif isinstance(x, dict):
            for k, v in x.items():
                self._tokens(v, reg, f"{path}/{k!r}", out, skip_dnc, dnc_out)
        elif isinstance(x, (list, KeyedList)):
            for i, y in enumerate(x):
                self._tokens(y, reg, f"{path}/{i}", out, skip_dnc, dnc_out)
        elif isinstance(x, (set, KeyedSet)):
            for y in sorted(x, key=lambda z: common.canon(self.alpha(z))):
                self._tokens(y, reg, f"{path}/{common.canon(self.alpha(y))[:20]}", out, skip_dnc, dnc_out)
        return out

    def make(self, o):
        """Receiver for abstract state o, reached by a real history: constructor, then overrides, then the reads that
        fill the caches the state has (None when that history does not reproduce the state)."""
        # every other state (by digest) is built with equal list elements ALIASED: one object at several positions
        self.alias_equal = int(common.digest(o["a"])[:2], 16) % 2 == 0
        try:
            obj = self.gamma({"t": "obj", "c": o["c"], "a": o["a"]})
        except Exception:  # noqa: BLE001      (a state the constructor refuses, e.g. a preparer that rejects the value)
            return None
        finally:
            self.alias_equal = False
        if self.scn["classes"][o["c"]].get("post_keep"):
            obj = self.kept[-1]          # the copy __post_init__ derived: judged on its own projected state
            del self.kept[:]
        xs = {k: v for k, v in o.get("x", {}).items() if k != "_" and v["t"] != "missing"}
        if xs:
            ov = o.get("ov", {})
            order = [p["name"] for p in self.scn["classes"][o["c"]]["props"]]
            for p in order:
                if p in xs and ov.get(p):
                    setattr(obj, p, self.gamma(xs[p]))
            for p in order:
                if p in xs and not ov.get(p):
                    getattr(obj, p)
            want = {"_": S.MISSING, **{p: o["x"].get(p, S.MISSING) for p in order}}
            have = self.alpha(obj)["x"]
            if self.scn["classes"][o["c"]].get("post_set"):
                # __post_init__ moved the attributes away from o: the receiver is judged on its own projected state, so only the
                # pattern of filled caches has to be the one asked for
                if {k: v["t"] == "missing" for k, v in have.items()} != {k: v["t"] == "missing" for k, v in want.items()}:
                    return None
            elif have != want:
                return None
        return obj

    def class_defaults(self, reg):
        vals, toks = [], []
        for cname, c in self.classes.items():
            for a in self.scn["classes"][cname]["attrs"]:
                if a["name"] in c.__dict__:
                    v = c.__dict__[a["name"]]
                    vals.append({"k": f"{cname}.{a['name']}", "v": self.alpha(v)})
                    toks += [t for _, t in self.tokens(v, reg)]
        return vals, toks


class Registry:
    def __init__(self):
        self.ids = {}
        self.keep = []

    def token(self, obj):
        t = self.ids.get(id(obj))
        if t is None:
            t = len(self.keep) + 1
            self.ids[id(obj)] = t
            self.keep.append(obj)
        return t


def call(world, obj, act, argsink):
    """Translate the action record into the API call.  argsink collects the argument objects handed in."""
    g = world.gamma
    op = act["op"]

    def arg(v):
        r = g(v)
        argsink.append([r, world.alpha(r)])
        return r

    def kw(pairs):
        return {p["k"]: arg(p["v"]) for p in pairs}

    def kwf(pairs):
        return {p["k"]: FN[p["v"]] for p in pairs}

    fl = {}
    if "inplace" in act:
        fl = {"_inplace": act["inplace"], "_if": act["iff"]}
    scn_cls = world.scn["classes"][world.by_type[type(obj)]]
    spec = {a["name"]: a for a in scn_cls["attrs"]}
    if op in ("with", "update"):
        pos = [] if act["v"]["t"] == "missing" else [arg(act["v"])]
        return getattr(obj, f"{op}_{act['attr']}")(*pos, **fl, **kw(act["kw"]))
    if op == "transform":
        pos = [] if act["f"] == "none" else [FN[act["f"]]]
        return getattr(obj, f"transform_{act['attr']}")(*pos, **fl, **kwf(act["kwf"]))
    if op == "reset":
        return getattr(obj, f"reset_{act['attr']}")(**fl)
    if op == "setattr":
        setattr(obj, act["attr"], arg(act["v"]))
        return obj
    if op == "delattr":
        delattr(obj, act["attr"])
        return obj
    if op == "read":
        return getattr(obj, act["p"])
    if op == "override":
        setattr(obj, act["p"], arg(act["v"]))
        return obj
    if op == "delprop":
        delattr(obj, act["p"])
        return obj
    if op == "construct":          # a fresh instance of the receiver's class from keyword arguments (the receiver is a bystander)
        return type(obj)(**kw(act["kw"]))
    if op == "update_repl":          # update(<replacement instance>, **kw)
        repl = world.repl          # built (and projected into act["v"]) by execute_on
        argsink.append([repl, world.alpha(repl)])
        return obj.update(repl, **fl, **kw(act["kw"]))
    if op == "update_top":
        return obj.update(**fl, **kw(act["kw"]))
    if op == "transform_top":
        return obj.transform(**fl, **kwf(act["kwf"]))
    if op == "reset_top":
        return obj.reset(**fl)
    a = spec[act["attr"]]
    item = a["item"]
    fam = {"list": "seq", "klist": "seq", "dict": "map", "set": "set", "kset": "set"}[a["ty"]["k"]]
    if fam == "seq":
        if op == "with_item":
            pos = [] if act["item"]["t"] == "missing" else [arg(act["item"])]
            extra = {}
            if act["index"]["t"] != "missing":
                extra["_index"] = g(act["index"])
            if act["insert"]:
                extra["_insert"] = True
            return getattr(obj, f"with_{item}")(*pos, **extra, **fl, **kw(act["kw"]))
        by = {} if act["byidx"] == "missing" else {"_by_index": act["byidx"] == "true"}
        if op == "update_item":
            pos = [arg(act["voi"])] + ([] if act["item"]["t"] == "missing" else [arg(act["item"])])
            return getattr(obj, f"update_{item}")(*pos, **by, **fl, **kw(act["kw"]))
        if op == "transform_item":
            pos = [arg(act["voi"])] + ([] if act["f"] == "none" else [FN[act["f"]]])
            return getattr(obj, f"transform_{item}")(*pos, **by, **fl, **kwf(act["kwf"]))
        return getattr(obj, f"without_{item}")(arg(act["voi"]), **by, **fl)
    if fam == "map":
        if op == "with_item":
            pos = [arg(act["key"])] + ([] if act["item"]["t"] == "missing" else [arg(act["item"])])
            return getattr(obj, f"with_{item}")(*pos, **fl, **kw(act["kw"]))
        if op == "update_item":
            pos = [arg(act["key"])] + ([] if act["item"]["t"] == "missing" else [arg(act["item"])])
            return getattr(obj, f"update_{item}")(*pos, **fl, **kw(act["kw"]))
        if op == "transform_item":
            pos = [arg(act["key"])] + ([] if act["f"] == "none" else [FN[act["f"]]])
            return getattr(obj, f"transform_{item}")(*pos, **fl, **kwf(act["kwf"]))
        return getattr(obj, f"without_{item}")(arg(act["key"]), **fl)
    if op == "with_item":
        pos = [] if act["item"]["t"] == "missing" else [arg(act["item"])]
        return getattr(obj, f"with_{item}")(*pos, **fl, **kw(act.get("kw", [])))
    if op == "update_item":
        pos = [arg(act["voi"])] + ([] if act["item"]["t"] == "missing" else [arg(act["item"])])
        return getattr(obj, f"update_{item}")(*pos, **fl, **kw(act.get("kw", [])))
    if op == "transform_item":
        tf = [] if act["f"] == "none" and act.get("kwf") else [(lambda x: x) if act["f"] == "none" else FN[act["f"]]]
        return getattr(obj, f"transform_{item}")(arg(act["voi"]), *tf, **fl, **kwf(act.get("kwf", [])))
    return getattr(obj, f"without_{item}")(arg(act["voi"]), **fl)


def sched_untraced():
    from . import sched
    return sched.untraced()


def execute(world, o, act, src="table", fault_at=None):
    """One event: build the receiver (and an identical peer), run the call, project everything.
    With fault_at=n the call is cut short by an InjectedFault raised at its n-th executed library line."""
    recv = world.make(o)
    if recv is None:
        return None
    peer = world.make(o)
    return execute_on(world, recv, o.get("ov", {"_": False}), act, src, fault_at, peer)[0]


def execute_on(world, recv, ov, act, src="table", fault_at=None, peer=None):
    """The call `act` on an existing receiver (ov: the override ghost of its properties).  Returns (event, result object)."""
    reg = Registry()
    if act.get("op") == "update_repl":
        # the replacement as the constructor really builds it (a non-idempotent preparer moves it away from the pool value; a value the
        # constructor refuses is replaced by a copy of the receiver): the recorded action carries ITS projection
        import copy as _copy
        with sched_untraced():
            try:
                world.repl = world.gamma({"t": "obj", "c": act["v"]["c"], "a": act["v"]["a"]})
            except Exception:  # noqa: BLE001
                world.repl = _copy.deepcopy(recv)
            act = dict(act, v=dict(world.alpha(world.repl), ov=act["v"].get("ov", {"_": False})))
    pre = world.alpha(recv)
    pre["ov"] = ov
    ids_pre = world.tokens(recv, reg)
    peer_pre = world.alpha(peer) if peer is not None else None
    dflt_pre, dflt_tok = world.class_defaults(reg)
    args = []
    CURRENT["world"] = world
    if world.shared is not None:
        world.shared = world.classes["Child"](v=1, ws=[1])
    if world.shared is not None:
        args.append([world.shared, world.alpha(world.shared)])       # must come out of every call unmodified
    res, result = "ok", None
    fault_loc = None
    if fault_at is None:
        try:
            with common.deadline(30):
                result = call(world, recv, act, args)
        except Exception as e:  # noqa: BLE001
            res = type(e).__name__
    else:
        from . import sched
        tr = sched.LineTracer(fault_at=fault_at)
        r = tr.run(lambda: call(world, recv, act, args))
        fault_loc = tr.fault_loc
        if r[0] == "ok":
            result = r[1]
        else:
            res = "InjectedFault" if r[0] == "injected" else r[1].split(":")[0]
    recv_post = world.alpha(recv)
    dnc_tok = []
    ids_post = world.tokens(recv, reg, dnc_out=dnc_tok)
    args_same = all(world.alpha(obj) == before for obj, before in args)
    ev = {"scn": world.name, "a": act, "src": src, "pre": pre, "recv_post": recv_post, "res": res,
          "ids_same": ids_pre == ids_post, "same": result is recv, "args_same": args_same,
          "peer_same": peer is None or world.alpha(peer) == peer_pre, "dflt_same": world.class_defaults(reg)[0] == dflt_pre}
    tok_recv = [t for _, t in ids_post]
    tok_args = [t for a, _ in args for _, t in world.tokens(a, reg)]
    if res == "ok" and type(result) in world.by_type:
        ev["result"] = world.alpha(result)
        rdnc = []
        tok_res = [t for _, t in world.tokens(result, reg, dnc_out=rdnc)]
        ev["result_kind"] = "obj"
        dnc_tok += rdnc
    else:
        ev["result"] = S.MISSING if res != "ok" else world.alpha(result)
        tok_res = [] if res != "ok" else [t for _, t in world.tokens(result, reg)]
        ev["result_kind"] = "none" if res != "ok" else "other"
    # attributes declared do_not_copy: is the very object of the receiver found in the derived instance?
    ev["dnc_carried"] = []
    if res == "ok" and result is not recv and type(result) is type(recv):
        for n in sorted(world.dnc_attrs.get(world.by_type[type(recv)], ())):
            if n in recv.__dict__ and n in result.__dict__ and isinstance(recv.__dict__[n], (list, dict, set)) or type(recv.__dict__.get(n)) in world.by_type:
                ev["dnc_carried"].append({"n": n, "same": recv.__dict__.get(n) is result.__dict__.get(n, None)})
    if fault_at is not None:
        ev["fault_at"] = fault_at
        ev["fault_loc"] = list(fault_loc) if fault_loc else []
    ev["tok_recv"], ev["tok_res"], ev["tok_args"], ev["tok_dnc"], ev["tok_dflt"] = tok_recv, tok_res, tok_args, [t for _, t in dnc_tok], dflt_tok
    return ev, result


def run_history(job):
    """Multi-step behaviours on persistent objects: a receiver built from a model state, then a seeded sequence of actions of the
    exported universe; a copy-on-write result usually becomes the next receiver.  Every step is one event for the same judge (its
    pre-state is the projection of the object as the previous steps left it), so states only histories reach are judged too:
    raw defaults after reset, caches filled and invalidated, values handed over from earlier results, unset attributes."""
    import random
    name, states, acts, seed, n_hist, hist_len = job
    w = World(name)
    rnd = random.Random(f"{seed}-{name}-hist")
    root = w.scn["root"]
    props = w.props[root]
    out = []
    for h in range(n_hist):
        o = rnd.choice(states)
        recv = w.make(o)
        if recv is None:
            continue
        ov = dict(o.get("ov", {"_": False}))
        for k in props:
            ov.setdefault(k, False)
        for sq in range(hist_len):
            a = rnd.choice(acts)
            had = {k: k in recv.__dict__ for k in props}
            ev, result = execute_on(w, recv, dict(ov), a, src="history")
            ev["hid"], ev["seq"] = f"{name}-{seed}-{h}", sq
            out.append(ev)
            nxt = recv
            if ev["res"] == "ok" and result is not recv and w.by_type.get(type(result)) == root and rnd.random() < 0.8:
                nxt = result
            if has_alien(ev["recv_post"] if nxt is recv else ev["result"]):
                break          # reported at this step; the rest of the history would start from a state outside the model
            ov = _next_ov(props, ov, had, nxt, a, ev)
            recv = nxt
    return out


def has_alien(v):
    """A projected value the model has no notion of (reported where it first appears; not used as a starting point afterwards)."""
    if isinstance(v, dict):
        return v.get("t") == "alien" or any(has_alien(x) for x in v.values())
    if isinstance(v, list):
        return any(has_alien(x) for x in v)
    return False


def _next_ov(props, ov, had, nxt, a, ev):
    """Override ghost of the object carried on after a step (harness-side bookkeeping of what the instance dict cannot tell: an
    entry is an override iff the last thing that put it there was an assignment to the property)."""
    ov = dict(ov)
    for k in props:
        if k not in nxt.__dict__:
            ov[k] = False
        elif a["op"] == "override" and a.get("p") == k and ev["res"] == "ok":
            ov[k] = True
        elif not had[k]:
            ov[k] = False
    return ov


def run_table(job):
    name, states, acts = job
    w = World(name)
    root = w.scn["root"]
    props = w.props[root]
    out = []
    for o in states:
        for a in acts:
            recv = w.make(o)
            if recv is None:
                continue
            peer = w.make(o)
            ov = dict(o.get("ov", {"_": False}))
            for k in props:
                ov.setdefault(k, False)
            had = {k: k in recv.__dict__ for k in props}
            ev, result = execute_on(w, recv, dict(ov), a, "table", None, peer)
            out.append(ev)
            # the same call once more on what it returned: x.op(...).op(...) reaches states (and sharing) a single call from a
            # constructor-built receiver cannot, e.g. a reset of an instance that itself came out of a reset
            if a.get("inplace") is False and ev["res"] == "ok" and result is not recv and w.by_type.get(type(result)) == root and not has_alien(ev["result"]):
                ev2, _ = execute_on(w, result, _next_ov(props, ov, had, result, a, ev), a, "table2")
                out.append(ev2)
    return out


def count_lines(world, o, act):
    from . import sched
    recv = world.make(o)
    if recv is None:
        return 0
    CURRENT["world"] = world
    tr = sched.LineTracer()
    tr.run(lambda: call(world, recv, act, []))
    return tr.lines


def run_faults(job):
    """Crash points: every (thinned) executed library line of each copy-on-write call as an abort point."""
    name, pairs, stride = job
    w = World(name)
    out = []
    for o, a in pairs:
        execute(w, o, a)                       # warm up lazily built methods / caches
        n = count_lines(w, o, a)
        for k in range(1, n + 1, stride):
            ev = execute(w, o, a, src="fault", fault_at=k)
            if ev is not None:
                out.append(ev)
    return out
