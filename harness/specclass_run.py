"""Shared pipeline of the spec-class core checks (C01-C08): per scenario MC (+dump, +action export), replay of
states x actions on the real classes, TLC judge.  Each check keeps the clauses of its own property."""
import json
import os
import shutil

from . import canary, common, pipeline, scenarios as S, tla
from . import d_specclass as D

MC_PROPS = ["InvTypeOK", "InvFresh"], ["PropAtomic", "PropSetAttrIsWith", "PropCowEqualsInplace", "PropIfFalse"]


def mc_scenario(rep, tmp, name, maxlen=2, workers=8):
    mc = S.model_constants(name)
    maxlen = S.SCENARIOS[name].get("maxlen", maxlen)
    d = os.path.join(tmp, name)
    os.makedirs(d, exist_ok=True)
    with open(os.path.join(d, "MC_SpecClass.tla"), "w") as f:
        f.write(f"---- MODULE MC_SpecClass ----\nEXTENDS SpecClass\nct == {tla.to_tla(mc['ct'])}\npools == {tla.to_tla(mc['pools'])}\n====\n")
    cfg = (f"SPECIFICATION Spec\nCONSTANTS\n CT <- ct\n Pools <- pools\n Root = \"{mc['root']}\"\n MaxLen = {maxlen}\nVIEW View\n"
           + "".join(f"INVARIANT {i}\n" for i in MC_PROPS[0]) + "".join(f"PROPERTY {p}\n" for p in MC_PROPS[1]) + "CHECK_DEADLOCK FALSE\n")
    cfgp = pipeline.write_cfg(d, "MC.cfg", cfg)
    r = pipeline.mc_run(rep, "MC_SpecClass", cfgp, label=f"SpecClass[{name}] maxlen={maxlen}", workers=workers, cwd=d, library=tla.SPEC, timeout=1500)
    return [s["o"] for s in r["states"]], r["acts"], mc


def collect(rep, names, tier, *, act_filter=None, max_pairs=None, seed=0, fault_pairs=0, fault_stride=1, histories=(0, 0)):
    """Returns (events, judge result).  act_filter(act) -> bool restricts the action alphabet; max_pairs thins the
    (state, action) table deterministically per scenario when it is larger."""
    tmp = tla.scratch("sc-")
    try:
        jobs, scn_tables, fault_src = [], {}, {}
        from concurrent.futures import ThreadPoolExecutor
        with ThreadPoolExecutor(max_workers=4) as ex:
            mcs = list(ex.map(lambda n: mc_scenario(rep, tmp, n, maxlen=2, workers=4), names))
        for name, (states, acts, mc) in zip(names, mcs):
            scn_tables[name] = mc["ct"]
            acts = sorted(acts, key=common.canon)
            if act_filter:
                acts = [a for a in acts if act_filter(a)]
            states = sorted(states, key=common.canon)
            fault_src[name] = (states, acts)
            total = len(states) * len(acts)
            if max_pairs and total > max_pairs:
                # keep every state, thin the actions per state with a stride that rotates with the state index
                stride = (total + max_pairs - 1) // max_pairs
                for si, st in enumerate(states):
                    jobs.append((name, [st], acts[(si + seed) % stride::stride]))
            else:
                # a few states per job: a job's events are all in memory at once (one job with hundreds of states x ~1500 actions grew a
                # worker to 6 GB in the thorough tier); run_judged flushes to the judge between jobs
                for i in range(0, len(states), 4):
                    jobs.append((name, states[i:i + 4], acts))
        rep.mark("mc")
        scnp = os.path.join(tmp, "scn.json")
        with open(scnp, "w") as f:
            json.dump(scn_tables, f)
        env = {"VERIF_SCN": scnp}
        result = pipeline.run_judged(_table, jobs, "J_SpecClass", replay_fn=_replay, key_fn=_key, nontrivial_fn=_nontrivial, env=env, chunk=12000)
        rep.mark("drive+judge")
        # binding canaries: corrupted copies of real events must be rejected by the judge
        frozen = {n for n in names if any(c["frozen"] or c["dnc"] for c in S.SCENARIOS[n]["classes"].values())}
        pipeline.canaries(rep, "J_SpecClass", result["samples"], canary.specclass_for(frozen), env=env, want=16)
        rep.mark("canaries")
        if histories[0]:
            hjobs = []
            for name, (states, acts) in fault_src.items():
                if not acts or not states:          # (a scenario without any action of the kind this check drives)
                    continue
                for wk in range(histories[0]):
                    hjobs.append((name, states, acts, f"{seed}-{wk}", 12, histories[1]))
            hr = pipeline.run_judged(_history, hjobs, "J_SpecClass", replay_fn=_replay, key_fn=_hkey, nontrivial_fn=_nontrivial, env=env, chunk=12000)
            rep.coverage["history_steps"] = hr["n"]
            rep.coverage["history_shape"] = {"per_scenario": histories[0] * 12, "steps_each": histories[1]}
            for k in ("n", "distinct", "bad"):
                result[k] += hr[k]
            for k, v in hr["ante"].items():
                result["ante"][k] = result["ante"].get(k, 0) + v
            rep.mark("histories")
        if fault_pairs:
            # crash points: a deterministic sample of copy-on-write (state, action) pairs per scenario, each aborted at its executed library lines
            import random
            fjobs = []
            for name, st_acts in fault_src.items():
                rnd = random.Random(f"{seed}-{name}")
                states, acts = st_acts
                cow = [a for a in acts if a.get("inplace") is False and a.get("iff", True)]
                pairs = [(rnd.choice(states), rnd.choice(cow)) for _ in range(fault_pairs)] if cow and states else []
                for ch in common.chunks(pairs, 2):
                    fjobs.append((name, ch, fault_stride))
            fr = pipeline.run_judged(_faults, fjobs, "J_SpecClass", replay_fn=_replay, key_fn=_key, nontrivial_fn=_always, env=env, chunk=12000)
            rep.coverage["aborted_executions"] = fr["n"]
            rep.coverage["fault_line_stride"] = fault_stride
            result["n"] += fr["n"]
            result["distinct"] += fr["distinct"]
            result["bad"] += fr["bad"]
            rep.mark("faults")
        return result
    finally:
        shutil.rmtree(tmp, ignore_errors=True)


def _table(job):
    return D.run_table(job)


def _history(job):
    return D.run_history(job)


def _hkey(e):
    return [e["scn"], e.get("hid"), e.get("seq"), e["pre"], e["a"]]


def _faults(job):
    return D.run_faults(job)


def _replay(e, detail):
    a = e["a"]
    brief = {k: a[k] for k in ("op", "attr", "inplace") if k in a}
    return ({"family": "specclass", "scn": e["scn"], "a": a, "pre": e["pre"], "recv_post": e["recv_post"], "res": e["res"],
             "result": e["result"], "same": e["same"], "model_allows": detail, "fault_at": e.get("fault_at"), "fault_loc": e.get("fault_loc"),
             "history": e.get("hid"), "step": e.get("seq")},
            f"scn={e['scn']} {brief} res={e['res']} model={detail}")


def _key(e):
    return [e["scn"], e["pre"], e["a"], e.get("fault_at")]


def _always(e):
    return True


def _nontrivial(e):
    return e["res"] != "ok" or e["recv_post"] != e["pre"] or not e["same"]


def report_clauses(rep, result, prefixes):
    for clause, (replay, detail) in result["bad"]:
        if clause.startswith(tuple(prefixes)):
            rep.violation(clause, replay, detail)
