#!/bin/sh
# usage: tools/try_mutant.sh <patch.diff> <demo.py|-> <check id> [more check ids]
# Confirms a seeded change in a scratch copy outside /repo and /verif (compiles, repository tests pass, demo fails with / passes
# without it), runs the named checks against the scratch copy (VERIF_REPO), prints a verdict per check, and removes the copy.
set -u
HOME_VERIF=$(cd "$(dirname "$0")/.." && pwd)
PATCH=$(readlink -f "$1"); DEMO="$2"; shift 2
S=$(mktemp -d /tmp/mutant-XXXXXX)
cp -r /repo/spec_classes /repo/tests /repo/pyproject.toml "$S"/ 2>/dev/null
[ "$DEMO" != "-" ] && cp "$DEMO" "$S/demo.py"
cd "$S"
if [ "$DEMO" != "-" ]; then PYTHONPATH="$S" /venv/bin/python demo.py >/dev/null 2>&1; echo "demo on original: exit $?"; fi
patch -p1 -s < "$PATCH" || { echo "PATCH DOES NOT APPLY"; rm -rf "$S"; exit 3; }
PYTHONPATH="$S" /venv/bin/python -m pytest -q -p no:cacheprovider -x 2>&1 | tail -1
if [ "$DEMO" != "-" ]; then PYTHONPATH="$S" /venv/bin/python demo.py >/dev/null 2>&1; echo "demo on mutant: exit $?"; fi
cd "$HOME_VERIF"
for c in "$@"; do
  OUT=$(VERIF_REPO="$S" VERIF_SCRATCH_OUT="$S/out" ./check "$c" 2>&1); RC=$?
  echo "check $c on mutant: exit $RC  $(echo "$OUT" | grep -c '^VIOLATION') VIOLATION lines"
  echo "$OUT" | grep -E "cluster|MACHINERY" | head -6
done
rm -rf "$S"
