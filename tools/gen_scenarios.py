#!/venv/bin/python
"""Generator of the fixed scenario corpus harness/gen_scenarios.json ("for every spec-class definition generated from the class
grammar"): class definitions sampled from the grammar of properties C01-C08 -- attribute kinds x ways of declaring a default x
preparers x do_not_copy (decorator list / Attr flag / whole class) x frozen x eager bootstrap x one level of plain or spec subclassing
with a re-defaulted inherited attribute.  The corpus is generated ONCE (seeds 1..N, fixed) and committed: checks read the JSON, they
never call this generator, so the scenarios do not depend on VERIF_SEED.

usage: tools/gen_scenarios.py N   -> writes harness/gen_scenarios.json with gen_01..gen_N"""
import json
import os
import random
import sys

sys.path.insert(0, os.path.join(os.path.dirname(os.path.abspath(__file__)), ".."))
from harness.scenarios import (CHILD, KCHILD, D, I, L, NONE, S, SET, KL, KS, TD, TINT, TKL, TKS, TL, TLIT, TOPT, TS, TSTR, TU, TUN, attr, cls)  # noqa: E402


def a_n(r):
    dk, dv = r.choice([("lit", I(0)), ("none", None), ("field", I(2)), ("attr", I(1))])
    return attr("n", TINT, dk, dv, prep=r.choice(["none", "none", "none", "pclip", "inc", "boom1"]))


def a_s(r):
    return attr("s", TSTR, *r.choice([("none", None), ("lit", S("a"))]))


def a_o(r):
    return attr("o", TOPT(TINT), "lit", r.choice([NONE, I(1)]))


def a_u(r):
    return attr("u", TUN(TINT, TSTR), "lit", r.choice([I(1), S("a")]))


def a_lit(r):
    return attr("lit", TLIT(S("a"), S("b")), "lit", S("a"))


def a_nums(r):
    dk, dv = r.choice([("lit", L()), ("factory", L()), ("fieldfactory", L()), ("lit", L(I(1))), ("none", None)])
    return attr("nums", TL(TINT), dk, dv, iprep=r.choice(["none", "none", "pclip", "inc"]), item="num")


def a_flags(r):
    dk, dv = r.choice([("factory", SET()), ("lit", SET()), ("none", None)])
    return attr("flags", TS(TINT), dk, dv, item="flag")


def a_tags(r):
    return attr("tags", TS(TSTR), "factory", SET(), item="tag")


def a_opts(r):
    dk, dv = r.choice([("attr", D()), ("factory", D()), ("none", None)])
    return attr("opts", TD(TSTR, TINT), dk, dv, item="opt")


def a_child(r):
    return attr("child", TU("Child"), prep=r.choice(["none", "none", "plookup", "boomv1"]))


def a_kids(r):
    return attr("kids", TL(TU("Child")), "factory", L(), item="kid")


def a_ks(r):
    return attr("ks", TKL(TU("KChild"), TSTR), "factory", KL(), item="k")


def a_kk(r):
    return attr("kk", TKS(TU("KChild"), TSTR), "factory", KS(), item="kk_item")


def a_kd(r):
    return attr("kd", TD(TSTR, TU("KChild")), "factory", D(), item="kd_item")


LIGHT = [a_n, a_s, a_o, a_u, a_lit]
COLL = [a_nums, a_flags, a_tags, a_opts]
HEAVY = [a_child, a_kids, a_ks, a_kk, a_kd]
REDEFAULT = {"n": [I(2)], "s": [S("b")], "o": [I(0), NONE], "u": [I(0)], "nums": [L(), L(I(2))], "flags": [SET()], "opts": [D()], "tags": [SET()]}


def generate(seed):
    r = random.Random(seed)
    shape = r.choice(["light+coll", "light+heavy", "coll+coll", "light+light+coll", "heavy", "light+coll+coll"])
    picks = []
    for part in shape.split("+"):
        pool = {"light": LIGHT, "coll": COLL, "heavy": HEAVY}[part]
        f = r.choice([g for g in pool if g not in picks])
        picks.append(f)
    attrs = [f(r) for f in picks]
    mutable = [a for a in attrs if a["ty"]["k"] in ("list", "set", "dict", "klist", "kset", "user")]
    frozen = r.random() < 0.2
    dnc_class = (not frozen) and r.random() < 0.1
    if mutable and not dnc_class and r.random() < 0.3:
        a = r.choice(mutable)
        a["dnc"] = True
        if r.random() < 0.5 and a["dk"] in ("none", "lit", "attr", "factory"):
            a["dnc_decl"] = "attr"
    eager = r.random() < 0.3
    classes = {}
    if any(a["ty"] == TU("Child") or a["ty"].get("a") == TU("Child") for a in attrs):
        classes["Child"] = CHILD
    if any(a["ty"].get("a") == TU("KChild") or a["ty"].get("b") == TU("KChild") for a in attrs):
        classes["KChild"] = KCHILD
    mode = r.choice(["none", "none", "plain", "spec"])
    if mode == "none":
        classes["P"] = cls(attrs, frozen=frozen, dnc=dnc_class, bootstrap=eager)
        root = "P"
    else:
        classes["Base"] = cls(attrs, frozen=frozen, dnc=dnc_class, bootstrap=eager)
        inh = []
        cands = [a for a in attrs if a["name"] in REDEFAULT and not a.get("dnc_decl")]
        red = r.choice(cands)["name"] if cands and r.random() < 0.7 else None
        for a in attrs:
            b = dict(a, inherited=True)
            if a["name"] == red:
                b["redefault"] = r.choice(REDEFAULT[red])
            if mode == "spec":
                # a decorated subclass that does not repeat the parent's do_not_copy setting turns the flag off for inherited attributes
                b["dnc"] = False
            inh.append(b)
        if mode == "spec":
            inh.append(attr("m", TINT, "lit", I(1)))
            classes["Sub"] = cls(inh, frozen=frozen, frozen_arg=False if frozen else None, dnc=False, bases=["Base"], bootstrap=eager)
        else:
            classes["Sub"] = cls(inh, frozen=frozen, dnc=dnc_class, bases=["Base"], plain=True)
        root = "Sub"
    return {"root": root, "classes": classes, "generated": {"seed": seed, "shape": shape, "mode": mode, "frozen": frozen, "dnc_class": dnc_class, "eager": eager}}


if __name__ == "__main__":
    n = int(sys.argv[1])
    out = {f"gen_{i:02d}": generate(i) for i in range(1, n + 1)}
    path = os.path.join(os.path.dirname(os.path.abspath(__file__)), "..", "harness", "gen_scenarios.json")
    with open(path, "w") as f:
        json.dump(out, f, indent=0)
    print("wrote", len(out), "scenarios to", os.path.normpath(path))
