#!/bin/sh
# usage: tools/keep_mutant.sh <worktree> <seed id> <property> <caught-by|MISSED> "<needs>" "<what>"
set -e
WT="$1"; ID="$2"; PROP="$3"; BY="$4"; NEEDS="$5"; WHAT="$6"
D=/verif/seeded/$ID; mkdir -p "$D"
cp "$WT/patch.diff" "$D/patch.diff"; cp "$WT/demo.py" "$D/demo.py"
python3 - "$D" "$PROP" "$BY" "$NEEDS" "$WHAT" <<'PY'
import json,sys
d,prop,by,needs,what=sys.argv[1:6]
json.dump({"property":prop,"what":what,"needs_to_manifest":needs,
           "confirmed":"tools/try_mutant.sh: patch applies to a scratch copy of /repo; repository test suite 152 passed with it; demo.py exits 0 on the original and non-zero with the change",
           "ran":f"VERIF_REPO=<scratch copy> ./check {prop} --tier quick", "caught_by":by}, open(d+"/meta.json","w"), indent=1)
PY
git -C /repo worktree remove --force "$WT" 2>/dev/null || rm -rf "$WT"
echo "kept $ID"
