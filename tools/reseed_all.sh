#!/bin/sh
# usage: tools/reseed_all.sh [seed-id-prefix]     -- regression run of the checks against every kept seeded change.
# For each /verif/seeded/<id>: scratch copy of /repo (outside /repo and /verif), apply patch.diff, repository tests, demo, the check of the
# change's property against the scratch copy (VERIF_REPO).  Prints one verdict line per change; exits 1 if any change is missed.
cd "$(dirname "$0")/.." || exit 2
MISSED=0
for D in seeded/${1:-}*/; do
  ID=$(basename "$D")
  PROP=$(python3 -c "import json,sys;m=json.load(open(sys.argv[1]));print(m.get('check', m['property']))" "$D/meta.json")      # 'check': the check that catches it when that is not its own property's
  OUT=$(tools/try_mutant.sh "$D/patch.diff" "$D/demo.py" "$PROP" 2>&1)
  if echo "$OUT" | grep -q "PATCH DOES NOT APPLY"; then V="PATCH-DOES-NOT-APPLY (the code it changed has since been repaired or rewritten)";
  elif echo "$OUT" | grep -q "check $PROP on mutant: exit 1"; then V="caught";
  else V="MISSED"; MISSED=1; fi
  TESTS=$(echo "$OUT" | grep -E "passed|failed" | head -1)
  echo "$ID: $V   [tests: $TESTS; $(echo "$OUT" | grep 'demo on mutant')]"
done
exit $MISSED
