#!/bin/sh
# usage: tools/thorough_all.sh [ids...]   -- runs the thorough tier of each check in turn, one summary line each (wall time, peak RSS of the tree)
cd "$(dirname "$0")/.." || exit 2
IDS="${*:-C09 C17 C16 C10 C19 C15 C20 C12 C18 C13 C14 C11 C07 C06 C02 C03 C01 C05 C04 C08}"
for c in $IDS; do
  /usr/bin/time -f "$c wall=%es maxrss=%MkB" ./check "$c" --tier thorough 2>&1 | grep -E "held|VIOLATION|KNOWN|MACHINERY|wall=" | cut -c1-400 | head -12
done
